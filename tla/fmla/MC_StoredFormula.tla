-------------------------- MODULE MC_StoredFormula --------------------------
(* Documents over a small grid of far-apart positions: every assignment of        *)
(* absent / val / fml / fmlonly to the positions; the FIRST formula cell (row-     *)
(* major) carries every text of up to MaxChars characters over ClassSet in every   *)
(* escaping form of its format, the other formula cells a fixed plain text.        *)
(* Built in stages so that TLC never enumerates the product up front.              *)
EXTENDS StoredFormula, Json

CONSTANTS PosIds, ClassSet, MaxChars

VARIABLES fmt, doc, todo, text, stage
vars == <<fmt, doc, todo, text, stage>>

\* position ids (cfg files cannot hold tuples): row * 100 + col
PosOf(k) == <<k \div 100, k % 100>>
Ordered == LET S == PosIds IN
           CHOOSE s \in [1..Cardinality(S) -> S] : \A i, j \in 1..Cardinality(S) : i < j => s[i] < s[j]
Plain == <<[c |-> "a", e |-> "lit"], [c |-> "plus", e |-> "lit"], [c |-> "a", e |-> "lit"]>>

Init == /\ fmt \in {"xlsx", "ods"} /\ doc = <<>> /\ todo = Ordered /\ text = <<>> /\ stage = "text"

\* stage 1: the rich text, character by character
AddChar(c, e) == /\ stage = "text" /\ Len(text) < MaxChars /\ e \in FormsOf(fmt, c)
                 /\ text' = Append(text, [c |-> c, e |-> e]) /\ UNCHANGED <<fmt, doc, todo, stage>>
SealText == stage = "text" /\ text # <<>> /\ stage' = "cells" /\ UNCHANGED <<fmt, doc, todo, text>>
\* stage 2: one position after the other
NoFormulaYet == \A p \in DOMAIN doc : ~HasFormula(doc[p])
Put(kind) ==
  /\ stage = "cells" /\ todo # <<>>
  /\ LET p == PosOf(Head(todo))
         cell == IF kind = "absent" THEN <<>>
                 ELSE [kind |-> kind, text |-> IF kind = "val" THEN <<>> ELSE IF NoFormulaYet THEN text ELSE Plain]
     IN doc' = IF kind = "absent" THEN doc
               ELSE [q \in DOMAIN doc \cup {p} |-> IF q = p THEN cell ELSE doc[q]]
  /\ todo' = Tail(todo) /\ UNCHANGED <<fmt, text, stage>>
Seal == stage = "cells" /\ todo = <<>> /\ stage' = "done" /\ UNCHANGED <<fmt, doc, todo, text>>

Next == \/ \E c \in ClassSet, e \in {"lit", "named", "dec", "hex", "cdata"} : AddChar(c, e)
        \/ SealText
        \/ \E k \in {"absent", "val", "fml", "fmlonly"} : Put(k)
        \/ Seal
Spec == Init /\ [][Next]_vars

AllPos == {PosOf(k) : k \in PosIds}
Refines == stage = "done" => \A p \in AllPos : AsIsAt(doc, p) = IdealAt(doc, p)
\* the rich text is only interesting when some cell carries it
Dump == (stage = "done" /\ ~NoFormulaYet) =>
          PrintT(<<"REPLAY", ToJson([fmt |-> fmt,
                    cells |-> [i \in 1..Cardinality(DOMAIN doc) |->
                                 LET ps == CHOOSE s \in [1..Cardinality(DOMAIN doc) -> DOMAIN doc] :
                                             \A a, b \in 1..Cardinality(DOMAIN doc) : a < b => s[a] # s[b]
                                 IN [p |-> ps[i], kind |-> doc[ps[i]].kind, text |-> doc[ps[i]].text]]])>>)
=============================================================================
