SPECIFICATION Spec
CONSTANTS
  PosIds = {0, 2, 100, 301}
  ClassSet = {"a", "amp", "lt", "gt", "quot", "apos", "sp", "cjk"}
  MaxChars = 2
INVARIANTS Refines Dump
CHECK_DEADLOCK FALSE
