SPECIFICATION Spec
CONSTANTS
  PosIds = {0, 2, 100, 101, 5005}
  ClassSet = {"a", "amp", "lt", "gt", "quot", "apos", "sp", "cjk"}
  MaxChars = 3
INVARIANTS Refines Dump
CHECK_DEADLOCK FALSE
