-------------------------------- MODULE Ptg --------------------------------
(***************************************************************************)
(* C14 -- formula token streams and their A1 text (format independent).    *)
(*                                                                         *)
(* A formula is a TREE:                                                    *)
(*   leaves  [t |-> "ref", r, c, rr, cr]          cell reference, rr / cr  *)
(*                                                = row / column relative  *)
(*           [t |-> "area", r1,c1,rr1,cr1, r2,c2,rr2,cr2]                  *)
(*           [t |-> "ref3d", x, r, c, rr, cr]     x = index into the XTI   *)
(*           [t |-> "area3d", x, ...]               table (sheet)          *)
(*           [t |-> "name", i]                    defined name, 1-based    *)
(*           int num str bool err miss            literals, missing arg    *)
(*   nodes   bin(op,a,b) un(op,a) pct(a) paren(a) func(f,args)             *)
(*           funcv(f,args) attrsum(a) space(a)                             *)
(* WRITER   Rpn(tree): the token list in evaluation (post) order.  How a   *)
(*          token is laid out in bytes (BIFF8: 2-byte row, column with     *)
(*          flag bits; BIFF12: 4-byte row, 14-bit column + 2 flag bits;    *)
(*          reference class variants) is the materialiser's business.      *)
(* IDEAL    Render(tree): the A1 text as a sequence of symbols (strings),  *)
(*          written from the statement: every reference names its row and  *)
(*          column in spreadsheet letters, `$` exactly on the absolute     *)
(*          components, the sheet name and `!` for 3-D references,         *)
(*          operands / arguments in order.                                 *)
(* READER   Parse(tokens): the offset-stack machine of parse_formula       *)
(*          (src/xlsb/mod.rs; src/xls.rs has the same shape): `formula` is *)
(*          the output buffer (sequence of symbols, so that split_off /    *)
(*          insert are exact), `stack` the start offsets of the operands.  *)
(* Named repairs (FALSE = as pinned, refuted by TLC, see MC_Ptg_asis*.cfg) *)
(*   PushColumnFixed  utils::push_column dropped the leading letters of    *)
(*                    every column >= 26 (AA -> A, IV -> V, XFD -> D)      *)
(*   RefFlagsFixed    PtgRef put `$` on the column when the ROW was        *)
(*                    absolute and vice versa                              *)
(*   AreaFlagsFixed   PtgArea / PtgRef3d / PtgArea3d always printed `$`    *)
(*                    and did not mask the flag bits out of the column     *)
(* Not asserted: strings containing a double quote, sheet names that need  *)
(* quoting, numbers without a short exact decimal form, PtgExp/PtgArray/   *)
(* PtgMem*, external workbooks, fPrompt / fCeFunc bits of PtgFuncVar.      *)
(***************************************************************************)
EXTENDS Naturals, Sequences, FiniteSets, TLC, SequencesExt

CONSTANTS PushColumnFixed, RefFlagsFixed, AreaFlagsFixed

Letters == <<"A","B","C","D","E","F","G","H","I","J","K","L","M","N","O","P","Q","R","S","T","U","V","W","X","Y","Z">>

--------------------------------------------------------------------------
(* column lettering: bijective base 26 *)
RECURSIVE ColName(_)
ColName(n) == IF n < 26 THEN <<Letters[n + 1]>>
              ELSE ColName((n \div 26) - 1) \o <<Letters[(n % 26) + 1]>>

\* utils::push_column as pinned: the loop stops when col < 26 without pushing that last digit
RECURSIVE PushRev(_, _)
PushRev(col, rev) == IF col >= 26
                     THEN LET c == col % 26 IN PushRev((col - c) \div 26, Append(rev, Letters[c + 1]))
                     ELSE rev
PushColumn(col) == IF PushColumnFixed THEN ColName(col)
                   ELSE IF col < 26 THEN <<Letters[col + 1]>> ELSE Reverse(PushRev(col, <<>>))

--------------------------------------------------------------------------
(* function table entries used by the writer: [MS-XLSB] 2.5.97.10 Ftab *)
FuncName(f) == CASE f = 0 -> "COUNT" [] f = 1 -> "IF" [] f = 4 -> "SUM" [] f = 7 -> "MAX"
                 [] f = 19 -> "PI" [] f = 24 -> "ABS" [] f = 27 -> "ROUND" [] f = 38 -> "NOT"
FuncArgc(f) == CASE f = 19 -> 0 [] f = 24 -> 1 [] f = 27 -> 2 [] f = 38 -> 1
ErrText(e) == CASE e = "Null" -> "#NULL!" [] e = "Div0" -> "#DIV/0!" [] e = "Value" -> "#VALUE!"
                [] e = "Ref" -> "#REF!" [] e = "Name" -> "#NAME?" [] e = "Num" -> "#NUM!" [] e = "NA" -> "#N/A"

--------------------------------------------------------------------------
(* IDEAL *)
Dollar(rel) == IF rel THEN <<>> ELSE <<"$">>
CellText(r, c, rr, cr) == Dollar(cr) \o ColName(c) \o Dollar(rr) \o <<ToString(r + 1)>>

RECURSIVE Render(_, _, _)
RECURSIVE RenderArgs(_, _, _, _)
Render(tr, sheets, names) ==
  CASE tr.t = "ref"    -> CellText(tr.r, tr.c, tr.rr, tr.cr)
    [] tr.t = "area"   -> CellText(tr.r1, tr.c1, tr.rr1, tr.cr1) \o <<":">> \o CellText(tr.r2, tr.c2, tr.rr2, tr.cr2)
    [] tr.t = "ref3d"  -> <<sheets[tr.x + 1], "!">> \o CellText(tr.r, tr.c, tr.rr, tr.cr)
    [] tr.t = "area3d" -> <<sheets[tr.x + 1], "!">> \o CellText(tr.r1, tr.c1, tr.rr1, tr.cr1) \o <<":">>
                             \o CellText(tr.r2, tr.c2, tr.rr2, tr.cr2)
    [] tr.t = "name"   -> <<names[tr.i]>>
    [] tr.t = "int"    -> <<ToString(tr.v)>>
    [] tr.t = "num"    -> <<tr.s>>
    [] tr.t = "str"    -> <<"\"", tr.s, "\"">>
    [] tr.t = "bool"   -> <<IF tr.b THEN "TRUE" ELSE "FALSE">>
    [] tr.t = "err"    -> <<ErrText(tr.e)>>
    [] tr.t = "miss"   -> <<>>
    [] tr.t = "bin"    -> Render(tr.a, sheets, names) \o <<tr.op>> \o Render(tr.b, sheets, names)
    [] tr.t = "un"     -> <<tr.op>> \o Render(tr.a, sheets, names)
    [] tr.t = "pct"    -> Render(tr.a, sheets, names) \o <<"%">>
    [] tr.t = "paren"  -> <<"(">> \o Render(tr.a, sheets, names) \o <<")">>
    [] tr.t = "space"  -> Render(tr.a, sheets, names)            \* PtgAttrSpace: layout only
    [] tr.t = "attrsum" -> <<"SUM", "(">> \o Render(tr.a, sheets, names) \o <<")">>
    [] tr.t \in {"func", "funcv"} ->
         <<FuncName(tr.f), "(">> \o RenderArgs(tr.args, 1, sheets, names) \o <<")">>
RenderArgs(args, i, sheets, names) ==
  IF i > Len(args) THEN <<>>
  ELSE Render(args[i], sheets, names) \o (IF i < Len(args) THEN <<",">> ELSE <<>>)
       \o RenderArgs(args, i + 1, sheets, names)

--------------------------------------------------------------------------
(* WRITER: post-order token list *)
RECURSIVE Rpn(_)
RECURSIVE RpnArgs(_, _)
Leaf(tr) == tr.t \in {"ref", "area", "ref3d", "area3d", "name", "int", "num", "str", "bool", "err", "miss"}
Rpn(tr) ==
  IF Leaf(tr) THEN <<[p |-> tr.t, a |-> tr]>>
  ELSE CASE tr.t = "bin"   -> Rpn(tr.a) \o Rpn(tr.b) \o <<[p |-> "bin", op |-> tr.op]>>
         [] tr.t = "un"    -> Rpn(tr.a) \o <<[p |-> "un", op |-> tr.op]>>
         [] tr.t = "pct"   -> Rpn(tr.a) \o <<[p |-> "pct"]>>
         [] tr.t = "paren" -> Rpn(tr.a) \o <<[p |-> "paren"]>>
         [] tr.t = "space" -> <<[p |-> "attrspace"]>> \o Rpn(tr.a)
         [] tr.t = "attrsum" -> Rpn(tr.a) \o <<[p |-> "attrsum"]>>
         [] tr.t = "func"  -> RpnArgs(tr.args, 1) \o <<[p |-> "func", f |-> tr.f]>>
         [] tr.t = "funcv" -> RpnArgs(tr.args, 1) \o <<[p |-> "funcv", f |-> tr.f, n |-> Len(tr.args)]>>
RpnArgs(args, i) == IF i > Len(args) THEN <<>> ELSE Rpn(args[i]) \o RpnArgs(args, i + 1)

--------------------------------------------------------------------------
(* READER: parse_formula; st = [stack : Seq(Nat), out : Seq(symbol), err : STRING] *)
SplitAt(out, e) == <<SubSeq(out, 1, e), SubSeq(out, e + 1, Len(out))>>    \* String::split_off(e)
InsAfter(out, e, sym) == SubSeq(out, 1, e) \o <<sym>> \o SubSeq(out, e + 1, Len(out))

\* PtgRef: `$` decisions and the column as the code computes them
RefText(a) ==
  LET colDollar == IF RefFlagsFixed THEN ~a.cr ELSE ~a.rr     \* as pinned: tests fRwRel for the column
      rowDollar == IF RefFlagsFixed THEN ~a.rr ELSE ~a.cr
  IN (IF colDollar THEN <<"$">> ELSE <<>>) \o PushColumn(a.c)
     \o (IF rowDollar THEN <<"$">> ELSE <<>>) \o <<ToString(a.r + 1)>>
\* PtgArea / PtgRef3d / PtgArea3d: as pinned the 16-bit column field goes to push_column unmasked
\* (fColRel = +16384, fRwRel = +32768) and `$` is always printed
Corner(r, c, rr, cr) ==
  IF AreaFlagsFixed
  THEN Dollar(cr) \o PushColumn(c) \o Dollar(rr) \o <<ToString(r + 1)>>
  ELSE <<"$">> \o PushColumn(c + (IF cr THEN 16384 ELSE 0) + (IF rr THEN 32768 ELSE 0))
       \o <<"$", ToString(r + 1)>>

Push(st, syms) == [st EXCEPT !.stack = Append(@, Len(st.out)), !.out = @ \o syms]

Step(st, tk, sheets, names) ==
  IF st.err # "" THEN st
  ELSE
  CASE tk.p = "ref"    -> Push(st, RefText(tk.a))
    [] tk.p = "area"   -> Push(st, Corner(tk.a.r1, tk.a.c1, tk.a.rr1, tk.a.cr1) \o <<":">>
                                   \o Corner(tk.a.r2, tk.a.c2, tk.a.rr2, tk.a.cr2))
    [] tk.p = "ref3d"  -> Push(st, <<sheets[tk.a.x + 1], "!">> \o Corner(tk.a.r, tk.a.c, tk.a.rr, tk.a.cr))
    [] tk.p = "area3d" -> Push(st, <<sheets[tk.a.x + 1], "!">> \o Corner(tk.a.r1, tk.a.c1, tk.a.rr1, tk.a.cr1)
                                   \o <<":">> \o Corner(tk.a.r2, tk.a.c2, tk.a.rr2, tk.a.cr2))
    [] tk.p = "name"   -> Push(st, IF tk.a.i \in DOMAIN names THEN <<names[tk.a.i]>> ELSE <<>>)
    [] tk.p = "int"    -> Push(st, <<ToString(tk.a.v)>>)
    [] tk.p = "num"    -> Push(st, <<tk.a.s>>)
    [] tk.p = "str"    -> Push(st, <<"\"", tk.a.s, "\"">>)
    [] tk.p = "bool"   -> Push(st, <<IF tk.a.b THEN "TRUE" ELSE "FALSE">>)
    [] tk.p = "err"    -> Push(st, <<ErrText(tk.a.e)>>)
    [] tk.p = "miss"   -> Push(st, <<>>)
    [] tk.p = "bin"    ->                                        \* e2 = stack.pop(); split_off; op; e2
         IF st.stack = <<>> THEN [st EXCEPT !.err = "StackLen"]
         ELSE LET sp == SplitAt(st.out, Last(st.stack))
              IN [st EXCEPT !.stack = Front(@), !.out = sp[1] \o <<tk.op>> \o sp[2]]
    [] tk.p = "un"     -> IF st.stack = <<>> THEN [st EXCEPT !.err = "StackLen"]
                          ELSE [st EXCEPT !.out = InsAfter(@, Last(st.stack), tk.op)]
    [] tk.p = "pct"    -> [st EXCEPT !.out = Append(@, "%")]
    [] tk.p = "paren"  -> IF st.stack = <<>> THEN [st EXCEPT !.err = "StackLen"]
                          ELSE [st EXCEPT !.out = Append(InsAfter(@, Last(st.stack), "("), ")")]
    [] tk.p = "attrspace" -> st
    [] tk.p = "attrsum" -> IF st.stack = <<>> THEN [st EXCEPT !.err = "StackLen"]
                           ELSE LET sp == SplitAt(st.out, Last(st.stack))
                                IN [st EXCEPT !.out = sp[1] \o <<"SUM", "(">> \o sp[2] \o <<")">>]
    [] tk.p \in {"func", "funcv"} ->
         LET argc == IF tk.p = "funcv" THEN tk.n ELSE FuncArgc(tk.f) IN
         IF Len(st.stack) < argc THEN [st EXCEPT !.err = "StackLen"]
         ELSE IF argc = 0 THEN Push(st, <<FuncName(tk.f), "(", ")">>)
         ELSE LET k == Len(st.stack) - argc
                  args == SubSeq(st.stack, k + 1, Len(st.stack))      \* stack.split_off(args_start)
                  start == args[1]
                  sp == SplitAt(st.out, start)                         \* fargs = formula.split_off(start)
                  bounds == [i \in 1..(argc + 1) |-> IF i <= argc THEN args[i] - start ELSE Len(sp[2])]
                  pieces == [i \in 1..argc |-> SubSeq(sp[2], bounds[i] + 1, bounds[i + 1]) \o <<",">>]
                  joined == FoldLeft(LAMBDA a, x : a \o x, <<>>, pieces)
              IN [st EXCEPT !.stack = Append(SubSeq(st.stack, 1, k), Len(sp[1])),
                            !.out = sp[1] \o <<FuncName(tk.f), "(">> \o Front(joined) \o <<")">>]

ParseInit == [stack |-> <<>>, out |-> <<>>, err |-> ""]
Parse(tokens, sheets, names) ==
  LET st == FoldLeft(LAMBDA a, tk : Step(a, tk, sheets, names), ParseInit, tokens)
  IN IF st.err # "" THEN [err |-> st.err]
     ELSE IF Len(st.stack) # 1 THEN [err |-> "StackLen"]
     ELSE [text |-> st.out]
=============================================================================
