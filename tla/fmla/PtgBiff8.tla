------------------------------ MODULE PtgBiff8 ------------------------------
(***************************************************************************)
(* C14 (xls) -- BIFF8 parsed formulas (rgce, [MS-XLS] 2.5.198) and their   *)
(* A1 text.  Self-contained (a BIFF12 sibling may exist as Ptg.tla).       *)
(*                                                                         *)
(* TOKENS (abstract; byte layout and ptg class bits are the materialiser's *)
(* business):                                                              *)
(*   [t |-> "ref",  r, c, rr, cr]             PtgRef  rr/cr = row/col relative *)
(*   [t |-> "area", r1, r2, c1, c2, rr1, cr1, rr2, cr2]          PtgArea   *)
(*   [t |-> "ref3d", ixti, r, c, rr, cr]  [t |-> "area3d", ixti, ...]      *)
(*   [t |-> "referr"] [t |-> "areaerr"] [t |-> "referr3d", ixti]           *)
(*   [t |-> "areaerr3d", ixti]                                             *)
(*   [t |-> "name", i]  (1-based)   [t |-> "int", n]  [t |-> "num", id]    *)
(*   [t |-> "str", id, hi] [t |-> "bool", b] [t |-> "err", code]           *)
(*   [t |-> "miss"]                                                        *)
(*   [t |-> "bin", op]  op in BinOps     [t |-> "un", op] uplus uminus percent *)
(*   [t |-> "paren"] [t |-> "func", iftab] [t |-> "funcvar", iftab, argc]  *)
(*   [t |-> "attrsum"] [t |-> "attrspace", ty, n]                          *)
(*   [t |-> "attrif"] [t |-> "attrgoto"] [t |-> "attrvolatile"]            *)
(*                                                                         *)
(* TEXT is a sequence of SYMBOLS [k, v] so that split_off / insert of the  *)
(* reader are exact: k = "p" (v = literal text), "col" (v = column index,  *)
(* lettered by the harness's own bijective base-26 routine), "num" (v =    *)
(* decimal number), "sheet" (v = index into the sheet list, -1 = #REF),    *)
(* "name" (v = index of the defined name, 0 = #REF!), "str" (v = string    *)
(* id), "flt" (v = double id), "fn" (v = iftab), "sp" (v = space type).    *)
(*                                                                         *)
(* READER = the offset-stack machine of src/xls.rs parse_formula           *)
(*   state [out : TEXT, stack : Seq(offset), err]                          *)
(* Fx is a record of BOOLEANs selecting, per construct, the code as pinned *)
(* (FALSE) or as repaired by the fix: commits (TRUE):                      *)
(*   ref  : PtgRef tested the row bit for the column's $ and vice versa    *)
(*   area : PtgArea never masked the flag bits and always printed $        *)
(*   ref3d: PtgRef3d shifted the column left by 2 and tested bits 1 / 0    *)
(*   area3d, err3d : sheet looked up as sheets[ixti] instead of through    *)
(*          the XTI table (area3d also unmasked / always $)                *)
(*   space: PtgAttrSpace inserted the blanks at the start of the last      *)
(*          operand and failed with StackLen when there was none           *)
(* Not in the checked language: PtgNameX, PtgArray, PtgMem*, PtgRefN /     *)
(* PtgAreaN, 3-D references over a sheet range or to a deleted sheet,      *)
(* string literals containing a double quote, numbers whose shortest       *)
(* decimal form is not unique.                                             *)
(***************************************************************************)
EXTENDS Integers, Sequences, FiniteSets, TLC, SequencesExt

CONSTANTS Xtis,      \* Seq of sheet indices (0-based): XTI entry i designates sheet Xtis[i+1]
          NSheets,   \* number of sheets
          NNames     \* number of defined names

Sym(k, v) == [k |-> k, v |-> v]
P(s) == Sym("p", s)
BinOps == {"+", "-", "*", "/", "^", "&", "<", "<=", "=", ">", ">=", "<>", " ", ",", ":"}

Bit(x, b) == (x \div b) % 2 = 1
ErrText(c) == CASE c = 0 -> "#NULL!" [] c = 7 -> "#DIV/0!" [] c = 15 -> "#VALUE!" [] c = 23 -> "#REF!"
                [] c = 29 -> "#NAME?" [] c = 36 -> "#NUM!" [] c = 42 -> "#N/A" [] c = 43 -> "#GETTING_DATA"
ErrCodes == {0, 7, 15, 23, 29, 36, 42, 43}

--------------------------------------------------------------------------
(* A1 text of references *)
Dollar(abs) == IF abs THEN <<P("$")>> ELSE <<>>
CellText(r, c, rr, cr) == Dollar(~cr) \o <<Sym("col", c)>> \o Dollar(~rr) \o <<Sym("num", r + 1)>>
AreaText(a) == CellText(a.r1, a.c1, a.rr1, a.cr1) \o <<P(":")>> \o CellText(a.r2, a.c2, a.rr2, a.cr2)
SheetViaXti(ixti) == IF ixti < Len(Xtis) /\ Xtis[ixti + 1] >= 0 /\ Xtis[ixti + 1] < NSheets
                     THEN Sym("sheet", Xtis[ixti + 1]) ELSE Sym("sheet", -1)
SheetDirect(ixti) == IF ixti < NSheets THEN Sym("sheet", ixti) ELSE Sym("sheet", -1)

\* the 16-bit column field as stored: column + 0x4000 * colRelative + 0x8000 * rowRelative
ColField(c, rr, cr) == c + (IF cr THEN 16384 ELSE 0) + (IF rr THEN 32768 ELSE 0)

(* text of an operand token as the reader produces it *)
OperandText(tk, Fx) ==
  CASE tk.t = "ref" ->
         IF Fx.ref THEN CellText(tk.r, tk.c, tk.rr, tk.cr)
         ELSE Dollar(~tk.rr) \o <<Sym("col", tk.c)>> \o Dollar(~tk.cr) \o <<Sym("num", tk.r + 1)>>
    [] tk.t = "area" ->
         IF Fx.area THEN AreaText(tk)
         ELSE <<P("$"), Sym("col", ColField(tk.c1, tk.rr1, tk.cr1)), P("$"), Sym("num", tk.r1 + 1), P(":"),
                P("$"), Sym("col", ColField(tk.c2, tk.rr2, tk.cr2)), P("$"), Sym("num", tk.r2 + 1)>>
    [] tk.t = "ref3d" ->
         <<SheetViaXti(tk.ixti), P("!")>> \o
         (IF Fx.ref3d THEN CellText(tk.r, tk.c, tk.rr, tk.cr)
          ELSE LET colu == ColField(tk.c, tk.rr, tk.cr)
               IN Dollar(Bit(colu, 2)) \o <<Sym("col", (colu * 4) % 65536)>> \o Dollar(Bit(colu, 1))
                  \o <<Sym("num", tk.r + 1)>>)
    [] tk.t = "area3d" ->
         IF Fx.area3d THEN <<SheetViaXti(tk.ixti), P("!")>> \o AreaText(tk)
         ELSE <<SheetDirect(tk.ixti), P("!"),
                P("$"), Sym("col", ColField(tk.c1, tk.rr1, tk.cr1)), P("$"), Sym("num", tk.r1 + 1), P(":"),
                P("$"), Sym("col", ColField(tk.c2, tk.rr2, tk.cr2)), P("$"), Sym("num", tk.r2 + 1)>>
    [] tk.t \in {"referr", "areaerr"} -> <<P("#REF!")>>
    [] tk.t \in {"referr3d", "areaerr3d"} ->
         <<IF Fx.err3d THEN SheetViaXti(tk.ixti) ELSE SheetDirect(tk.ixti), P("!"), P("#REF!")>>
    [] tk.t = "name" -> <<Sym("name", IF tk.i >= 1 /\ tk.i <= NNames THEN tk.i ELSE 0)>>
    [] tk.t = "int"  -> <<Sym("num", tk.n)>>
    [] tk.t = "num"  -> <<Sym("flt", tk.id)>>
    [] tk.t = "str"  -> <<P("\""), Sym("str", tk.id), P("\"")>>
    [] tk.t = "bool" -> <<P(IF tk.b THEN "TRUE" ELSE "FALSE")>>
    [] tk.t = "err"  -> <<P(ErrText(tk.code))>>
    [] tk.t = "miss" -> <<>>

Operands == {"ref", "area", "ref3d", "area3d", "referr", "areaerr", "referr3d", "areaerr3d", "name",
             "int", "num", "str", "bool", "err", "miss"}

\* FTAB_ARGC of the functions the writer uses (255 = variable)
FixedArgc(iftab) == CASE iftab = 19 -> 0 [] iftab = 24 -> 1 [] iftab = 27 -> 2 [] iftab = 38 -> 1
                      [] iftab = 10 -> 0 [] OTHER -> 255

InsAt(s, at, x) == SubSeq(s, 1, at) \o x \o SubSeq(s, at + 1, Len(s))     \* at = 0-based offset
PopS(st) == SubSeq(st, 1, Len(st) - 1)
RECURSIVE Spaces(_, _)
Spaces(ty, n) == IF n = 0 THEN <<>> ELSE <<Sym("sp", ty)>> \o Spaces(ty, n - 1)

RInit == [out |-> <<>>, stack |-> <<>>, err |-> ""]

(* one iteration of `while !rgce.is_empty()` *)
RStep(st, tk, Fx) ==
  IF st.err # "" THEN st
  ELSE
  LET out == st.out
      stk == st.stack
      n   == Len(stk)
      Fail(e) == [st EXCEPT !.err = e]
  IN
  IF tk.t \in Operands THEN [st EXCEPT !.stack = Append(stk, Len(out)), !.out = out \o OperandText(tk, Fx)]
  ELSE CASE tk.t = "bin" ->
         \* let e2 = stack.pop()?; formula = formula[..e2] + op + formula[e2..]
         IF n = 0 THEN Fail("StackLen")
         ELSE [st EXCEPT !.stack = PopS(stk), !.out = InsAt(out, stk[n], <<P(tk.op)>>)]
    [] tk.t = "un" ->
         IF tk.op = "percent" THEN [st EXCEPT !.out = Append(out, P("%"))]
         ELSE IF n = 0 THEN Fail("StackLen")
         ELSE [st EXCEPT !.out = InsAt(out, stk[n], <<P(IF tk.op = "uplus" THEN "+" ELSE "-")>>)]
    [] tk.t = "paren" ->
         IF n = 0 THEN Fail("StackLen")
         ELSE [st EXCEPT !.out = Append(InsAt(out, stk[n], <<P("(")>>), P(")"))]
    [] tk.t \in {"func", "funcvar"} ->
         (LET argc == IF tk.t = "func" THEN FixedArgc(tk.iftab) ELSE tk.argc
          IN IF n < argc THEN Fail("StackLen")
             ELSE IF argc = 0
             THEN [st EXCEPT !.stack = Append(stk, Len(out)), !.out = out \o <<Sym("fn", tk.iftab), P("("), P(")")>>]
             ELSE LET args  == SubSeq(stk, n - argc + 1, n)
                      start == args[1]
                      fargs == SubSeq(out, start + 1, Len(out))
                      \* the arguments, each followed by ',' ; the last ',' is popped
                      bnd   == [k \in 1..(argc + 1) |-> IF k <= argc THEN args[k] - start ELSE Len(fargs)]
                      RECURSIVE Join(_)
                      Join(k) == IF k > argc THEN <<>>
                                 ELSE SubSeq(fargs, bnd[k] + 1, bnd[k + 1])
                                      \o (IF k < argc THEN <<P(",")>> ELSE <<>>) \o Join(k + 1)
                  IN [st EXCEPT !.stack = Append(SubSeq(stk, 1, n - argc), start),
                                !.out = SubSeq(out, 1, start) \o <<Sym("fn", tk.iftab), P("(")>> \o Join(1) \o <<P(")")>>])
    [] tk.t = "attrsum" ->
         IF n = 0 THEN Fail("StackLen")
         ELSE [st EXCEPT !.out = SubSeq(out, 1, stk[n]) \o <<Sym("fn", 4), P("(")>>
                                 \o SubSeq(out, stk[n] + 1, Len(out)) \o <<P(")")>>]
    [] tk.t = "attrspace" ->
         IF Fx.space THEN [st EXCEPT !.out = out \o Spaces(tk.ty, tk.n)]
         ELSE IF n = 0 THEN Fail("StackLen")
         ELSE [st EXCEPT !.out = InsAt(out, stk[n], Spaces(tk.ty, tk.n))]
    [] OTHER -> st        \* attrif, attrgoto, attrvolatile: skipped

Run(toks, Fx) ==
  LET st == FoldLeft(LAMBDA a, tk : RStep(a, tk, Fx), RInit, toks)
  IN IF st.err # "" THEN [err |-> st.err]
     ELSE IF Len(st.stack) # 1 THEN [err |-> "InvalidFormula"]
     ELSE [err |-> "", text |-> st.out]

\* the statement promises tokens in evaluation order, not the blanks between them
NoSpace(text) == SelectSeq(text, LAMBDA s : s.k # "sp")

--------------------------------------------------------------------------
(* defined names (Lbl): parse_defined_names reads the first token only *)
NameText(tk) ==
  CASE tk.t = "ref3d"  -> [ixti |-> tk.ixti, text |-> <<P("$"), Sym("col", ColField(tk.c, tk.rr, tk.cr)), P("$"), Sym("num", tk.r + 1)>>]
    [] tk.t = "area3d" -> [ixti |-> tk.ixti,
                           text |-> <<P("$"), Sym("col", ColField(tk.c1, tk.rr1, tk.cr1)), P("$"), Sym("num", tk.r1 + 1), P(":"),
                                      P("$"), Sym("col", ColField(tk.c2, tk.rr2, tk.cr2)), P("$"), Sym("num", tk.r2 + 1)>>]
    [] tk.t \in {"referr3d", "areaerr3d"} -> [ixti |-> tk.ixti, text |-> <<P("#REF!")>>]
\* parse_workbook: xtis.get(i).and_then(|xti| sheet_names.get(xti.itab_first)) ; ViaXti = FALSE is the
\* seeded variant sheet_names.get(i)
DefinedName(tk, ViaXti) ==
  LET n == NameText(tk)
  IN <<IF ViaXti THEN SheetViaXti(n.ixti) ELSE SheetDirect(n.ixti), P("!")>> \o n.text
=============================================================================
