--------------------------- MODULE SharedFormula ---------------------------
(***************************************************************************)
(* C15 -- xlsx shared formulas.                                            *)
(*                                                                         *)
(* A master formula is a sequence of lexical ATOMS joined by "+".  Each    *)
(* atom has a text (sequence of 1-character strings) and, when it is a     *)
(* cell reference, its structure [cabs, col, rabs, row].  Ideal: member     *)
(* cell at offset (dr,dc) from the master gets the master text with every  *)
(* reference's RELATIVE components moved and everything else verbatim.     *)
(* As-is: replace_cell_names / offset_cell_name / coordinate_to_name /     *)
(* get_row_and_optional_column of src/xlsx/mod.rs transcribed at character *)
(* level, and next_formula's offset map (one-dimensional fill).            *)
(* Named deviations = lexical features the scanner is known to mishandle;  *)
(* TLC checks that OUTSIDE them as-is = ideal.                             *)
(***************************************************************************)
EXTENDS Naturals, Sequences, FiniteSets, TLC, SequencesExt

Upper == <<"A","B","C","D","E","F","G","H","I","J","K","L","M","N","O","P","Q","R","S","T","U","V","W","X","Y","Z">>
Lower == <<"a","b","c","d","e","f","g","h","i","j","k","l","m","n","o","p","q","r","s","t","u","v","w","x","y","z">>
Digit == <<"0","1","2","3","4","5","6","7","8","9">>
IsUpper(c) == \E i \in 1..26 : Upper[i] = c
IsLower(c) == \E i \in 1..26 : Lower[i] = c
IsAlpha(c) == IsUpper(c) \/ IsLower(c)
IsDigit(c) == \E i \in 1..10 : Digit[i] = c
LetterVal(c) == IF IsUpper(c) THEN CHOOSE i \in 1..26 : Upper[i] = c ELSE CHOOSE i \in 1..26 : Lower[i] = c
DigitVal(c) == (CHOOSE i \in 1..10 : Digit[i] = c) - 1

RECURSIVE NatToChars(_)
NatToChars(n) == IF n < 10 THEN <<Digit[n + 1]>> ELSE NatToChars(n \div 10) \o <<Digit[(n % 10) + 1]>>
\* bijective base-26 lettering of a 0-based column
RECURSIVE ColToChars(_)
ColToChars(c) == IF c < 26 THEN <<Upper[c + 1]>> ELSE ColToChars(c \div 26 - 1) \o <<Upper[(c % 26) + 1]>>

MaxCol == 16383
MaxRow == 1048575

--------------------------------------------------------------------------
(* atoms *)
RefText(r) == (IF r.cabs THEN <<"$">> ELSE <<>>) \o ColToChars(r.col)
              \o (IF r.rabs THEN <<"$">> ELSE <<>>) \o NatToChars(r.row + 1)
ShiftRef(r, dr, dc) == [r EXCEPT !.col = IF r.cabs THEN @ ELSE @ + dc, !.row = IF r.rabs THEN @ ELSE @ + dr]
InSheet(r) == r.col <= MaxCol /\ r.row <= MaxRow

Str(s) == s                       \* texts are written as tuples of 1-char strings
\* atom = [k, pre, refs, mid, post, feat] : text = pre \o ref1 \o (mid \o ref2 for areas) \o post
Atom(k, pre, refs, post, feat) == [k |-> k, pre |-> pre, refs |-> refs, post |-> post, feat |-> feat]
AtomText(a, dr, dc) ==
  a.pre \o (IF Len(a.refs) >= 1 THEN RefText(ShiftRef(a.refs[1], dr, dc)) ELSE <<>>)
        \o (IF Len(a.refs) = 2 THEN <<":">> \o RefText(ShiftRef(a.refs[2], dr, dc)) ELSE <<>>)
        \o a.post
AtomOK(a, dr, dc) == \A i \in 1..Len(a.refs) : InSheet(ShiftRef(a.refs[i], dr, dc))

RECURSIVE JoinPlus(_, _, _)
JoinPlus(atoms, dr, dc) ==
  IF atoms = <<>> THEN <<>>
  ELSE IF Len(atoms) = 1 THEN AtomText(atoms[1], dr, dc)
  ELSE AtomText(atoms[1], dr, dc) \o <<"+">> \o JoinPlus(Tail(atoms), dr, dc)

MasterText(atoms) == JoinPlus(atoms, 0, 0)
\* IDEAL translation
IdealText(atoms, dr, dc) == JoinPlus(atoms, dr, dc)

--------------------------------------------------------------------------
(* AS-IS scanner *)
\* get_row_and_optional_column over `name` (iterated from the right)
\* result [ok, row, hascol, col] with 0-based row / col
RECURSIVE RowColScan(_, _, _, _, _, _)
RowColScan(name, i, row, col, pow, readrow) ==
  IF i = 0 THEN IF row = 0 THEN [ok |-> FALSE] ELSE [ok |-> TRUE, row |-> row - 1, hascol |-> col > 0, col |-> IF col > 0 THEN col - 1 ELSE 0]
  ELSE LET c == name[i] IN
       IF IsDigit(c) THEN
            IF readrow THEN RowColScan(name, i - 1, row + DigitVal(c) * pow, col, pow * 10, readrow)
            ELSE [ok |-> FALSE]                                   \* NumericColumn
       ELSE IF IsAlpha(c) THEN
            IF readrow /\ row = 0 THEN [ok |-> FALSE]              \* RangeWithoutRowComponent
            ELSE LET p == IF readrow THEN 1 ELSE pow
                 IN RowColScan(name, i - 1, row, col + LetterVal(c) * p, p * 26, FALSE)
       ELSE [ok |-> FALSE]
\* names with 7+ letters denote a column far beyond XFD (or overflow u32 -> Err): either way the
\* caller keeps the text; 10+ digit rows are not generated
NAlpha(name) == Cardinality({i \in 1..Len(name) : IsAlpha(name[i])})
GetRowCol(name) == IF NAlpha(name) >= 7 THEN [ok |-> FALSE]
                   ELSE RowColScan(name, Len(name), 0, 0, 1, TRUE)

\* offset_cell_name: Ok(new name) or "keep" (Err -> the text is copied verbatim)
OffsetCellName(name, dr, dc) ==
  LET rc == GetRowCol(name) IN
  IF ~rc.ok \/ ~rc.hascol THEN name
  ELSE IF rc.col + dc > MaxCol THEN name                           \* column_number_to_name overflow
  ELSE ColToChars(rc.col + dc) \o NatToChars(rc.row + dr + 1)

\* replace_cell_names: character loop with (res, cell, is_cell_row, in_quote)
RECURSIVE Scan(_, _, _, _, _, _, _, _)
Scan(s, i, res, cell, iscr, inq, dr, dc) ==
  IF i > Len(s) THEN res \o (IF cell = <<>> THEN <<>> ELSE OffsetCellName(cell, dr, dc))
  ELSE LET c    == s[i]
           inq2 == IF c = "\"" THEN ~inq ELSE inq
       IN IF inq2 THEN Scan(s, i + 1, Append(res, c), cell, iscr, inq2, dr, dc)
          ELSE IF IsAlpha(c) THEN
                 IF iscr THEN Scan(s, i + 1, res \o cell, <<c>>, FALSE, inq2, dr, dc)
                 ELSE Scan(s, i + 1, res, Append(cell, c), FALSE, inq2, dr, dc)
          ELSE IF IsDigit(c) THEN Scan(s, i + 1, res, Append(cell, c), TRUE, inq2, dr, dc)
          ELSE Scan(s, i + 1, Append(res \o OffsetCellName(cell, dr, dc), c), <<>>, FALSE, inq2, dr, dc)
AsIsText(atoms, dr, dc) == Scan(MasterText(atoms), 1, <<>>, <<>>, FALSE, FALSE, dr, dc)
\* the scanner carries no state across a "+" outside quotes, so the as-is text is the "+"-join of the
\* as-is texts of the atoms: a reader in which SOME of the named deviations are repaired produces, atom
\* by atom, either the ideal or the as-is text (used to explain partial repairs)
AsIsAtomText(a, dr, dc) == Scan(AtomText(a, 0, 0), 1, <<>>, <<>>, FALSE, FALSE, dr, dc)

\* next_formula's offset map: rows differ -> first column only; else columns of the first row
AsIsMember(shape, dr, dc) == IF shape.h > 1 THEN dc = 0 ELSE TRUE
=============================================================================
