--------------------------- MODULE StoredFormula ---------------------------
(***************************************************************************)
(* C14 (stored-text formats) -- worksheet_formula for xlsx and ods: "every  *)
(* cell that has a formula holds that formula's text at the cell's absolute *)
(* position and every other cell is the empty string; for xlsx and ods it   *)
(* is the stored text".                                                     *)
(*                                                                         *)
(* A document maps positions to cells [kind, text]:                         *)
(*   "val"      a constant (no formula)                                     *)
(*   "fml"      a formula with a cached value                               *)
(*   "fmlonly"  a formula without a cached value (never calculated)         *)
(* The formula text is a sequence of characters [c : class, e : escaping    *)
(* form]; the physical form is the <f> element's text in xlsx (literal,     *)
(* named entity, decimal / hex reference, CDATA) and the table:formula      *)
(* attribute's value in ods (no CDATA; a double quote cannot be literal).   *)
(* IDEAL: the text at a position is the sequence of the characters' classes *)
(* when the cell has a formula, empty otherwise -- by ABSOLUTE position (the *)
(* statement does not fix the extent of the returned range).                *)
(* READER: xlsx -- next_formula per cell element (read_formula: unescaped   *)
(* text and CDATA events concatenated), cells with a non-empty text through *)
(* Range::from_sparse; ods -- the formula attribute of every cell collected *)
(* next to the values, get_range trimming to the non-empty bounding box.    *)
(* Both give the tight bounding box of the formula cells.                   *)
(* Not generated: shared formulas (C15), empty formula text, repeated ods   *)
(* cells carrying a formula, array formulas.                                *)
(***************************************************************************)
EXTENDS Naturals, Sequences, FiniteSets, TLC

Classes == {"a", "plus", "amp", "lt", "gt", "quot", "apos", "sp", "cjk"}
FormsOf(fmt, c) ==
  IF fmt = "xlsx" THEN
    CASE c = "a"    -> {"lit", "dec", "hex", "cdata"}
      [] c = "plus" -> {"lit"}
      [] c = "amp"  -> {"named", "dec", "hex", "cdata"}
      [] c = "lt"   -> {"named", "dec", "cdata"}
      [] c = "gt"   -> {"lit", "named", "cdata"}
      [] c = "quot" -> {"lit", "named"}
      [] c = "apos" -> {"lit", "named"}
      [] c = "sp"   -> {"lit", "dec"}
      [] c = "cjk"  -> {"lit", "hex"}
  ELSE
    CASE c = "a"    -> {"lit", "dec", "hex"}
      [] c = "plus" -> {"lit"}
      [] c = "amp"  -> {"named", "dec", "hex"}
      [] c = "lt"   -> {"named", "dec"}
      [] c = "gt"   -> {"lit", "named"}
      [] c = "quot" -> {"named", "dec"}
      [] c = "apos" -> {"lit", "named"}
      [] c = "sp"   -> {"lit", "dec"}
      [] c = "cjk"  -> {"lit", "hex"}

ClassesOf(chars) == [i \in 1..Len(chars) |-> chars[i].c]
HasFormula(cell) == cell.kind \in {"fml", "fmlonly"}

\* IDEAL
IdealAt(doc, p) == IF p \in DOMAIN doc /\ HasFormula(doc[p]) THEN ClassesOf(doc[p].text) ELSE <<>>

\* READER: sparse list of (position, text) for the cells with a formula, then the tight box
FormulaCells(doc) == {p \in DOMAIN doc : HasFormula(doc[p])}
SetMin(S) == CHOOSE x \in S : \A y \in S : x <= y
SetMax(S) == CHOOSE x \in S : \A y \in S : x >= y
AsIsRange(doc) ==
  LET F == FormulaCells(doc) IN
  IF F = {} THEN [start |-> <<>>, end |-> <<>>, at |-> <<>>]
  ELSE [start |-> <<SetMin({p[1] : p \in F}), SetMin({p[2] : p \in F})>>,
        end   |-> <<SetMax({p[1] : p \in F}), SetMax({p[2] : p \in F})>>,
        at    |-> [p \in F |-> ClassesOf(doc[p].text)]]       \* unescape / CDATA decode = the classes
AsIsAt(doc, p) == LET r == AsIsRange(doc) IN IF p \in DOMAIN r.at THEN r.at[p] ELSE <<>>
=============================================================================
