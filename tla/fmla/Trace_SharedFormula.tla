------------------------ MODULE Trace_SharedFormula ------------------------
(* code -> spec: calls of the real replace_cell_names (through the verification *)
(* window) on random formula texts must return what the transcribed scanner     *)
(* of SharedFormula.tla returns.                                                *)
EXTENDS SharedFormula, Json, IOUtils

Rec == ndJsonDeserialize(IOEnv.TRACE)
VARIABLES l
Ev == Rec[l]
Init == l = 1
TReplace == /\ l <= Len(Rec) /\ Ev.e = "replace" /\ "error" \notin DOMAIN Ev
            /\ Scan(Ev.s, 1, <<>>, <<>>, FALSE, FALSE, Ev.dr, Ev.dc) = Ev.res
            /\ l' = l + 1
Next == TReplace
Spec == Init /\ [][Next]_l
Accepted ==
  LET d == TLCGet("stats").diameter IN
  IF d - 1 = Len(Rec) THEN PrintT(<<"ACCEPTED", ToString(Len(Rec))>>)
  ELSE PrintT(<<"REJECTED", ToJson([at |-> d, run |-> Rec[d].run])>>)
=============================================================================
