------------------------ MODULE Trace_SharedFormula ------------------------
(* code -> spec: calls of the real replace_cell_names (through the verification *)
(* window) on random formulas built from lexical atoms.  The result must be the *)
(* ideal translation; on formulas exhibiting a named deviation feature it may   *)
(* instead be what the transcribed as-is scanner of SharedFormula.tla returns   *)
(* (so a repaired scanner is accepted, a third behaviour is not).  Outside the  *)
(* features the transcribed scanner itself must equal the ideal.                *)
EXTENDS SharedFormula, Json, IOUtils

Rec == ndJsonDeserialize(IOEnv.TRACE)
VARIABLES l
Ev == Rec[l]
Init == l = 1
AtomAsIs(k) == Scan(Ev.atoms[k].s, 1, <<>>, <<>>, FALSE, FALSE, Ev.dr, Ev.dc)
RECURSIVE Explains(_, _)
Explains(res, k) ==
  IF k > Len(Ev.atoms) THEN res = <<>>
  ELSE \E ch \in {Ev.atoms[k].ideal, AtomAsIs(k)} :
         /\ Len(ch) <= Len(res) /\ SubSeq(res, 1, Len(ch)) = ch
         /\ Explains(SubSeq(res, Len(ch) + 1, Len(res)), k + 1)

TReplace == /\ l <= Len(Rec) /\ Ev.e = "replace" /\ "error" \notin DOMAIN Ev
            /\ LET asis == Scan(Ev.s, 1, <<>>, <<>>, FALSE, FALSE, Ev.dr, Ev.dc) IN
                 \* ideal, or -- on a formula exhibiting listed deviations -- explained atom by atom: every
                 \* atom reads ideal or as the as-is scanner reads it (some deviations may be repaired)
                 /\ (Ev.res = Ev.ideal \/ (Ev.feats # <<>> /\ Explains(Ev.res, 1)))
                 /\ (Ev.feats = <<>> => asis = Ev.ideal)
            /\ l' = l + 1
\* {"e":"tall","ref","want","got"}: a group spanning more than 16 384 rows (or reaching the last
\* columns) of which only a few member cells are present: each present member reports the master
\* translated by its own offset (want is computed by the driver from the member's position)
TTall == /\ l <= Len(Rec) /\ Ev.e = "tall" /\ "error" \notin DOMAIN Ev
         /\ Ev.got = Ev.want
         /\ l' = l + 1
Next == TReplace \/ TTall
Spec == Init /\ [][Next]_l
Accepted ==
  LET d == TLCGet("stats").diameter IN
  IF d - 1 = Len(Rec) THEN PrintT(<<"ACCEPTED", ToString(Len(Rec))>>)
  ELSE PrintT(<<"REJECTED", ToJson([at |-> d, event |-> Rec[d]])>>)
=============================================================================
