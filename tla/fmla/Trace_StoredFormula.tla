------------------------- MODULE Trace_StoredFormula -------------------------
(* code -> spec: random larger xlsx / ods documents (cells val / fml / fmlonly with    *)
(* realistic formula texts, written with the format's default escaping) read through  *)
(* the real worksheet_formula; the observed non-empty cells, by absolute position,     *)
(* must be exactly the document's formula cells with their stored text.                *)
EXTENDS Naturals, Sequences, FiniteSets, TLC, Json, IOUtils

Rec == ndJsonDeserialize(IOEnv.TRACE)
VARIABLES l
Ev == Rec[l]

Init == l = 1
\* the statement, on the logged document: text at every formula cell, nothing anywhere else
Ideal(cells) == {<<cells[i].p[1], cells[i].p[2], cells[i].text>> :
                   i \in {j \in 1..Len(cells) : cells[j].kind \in {"fml", "fmlonly"}}}
TFormulas == /\ l <= Len(Rec) /\ Ev.e = "formulas"
             /\ "error" \notin DOMAIN Ev /\ "panic" \notin DOMAIN Ev
             /\ {<<Ev.got[i][1], Ev.got[i][2], Ev.got[i][3]>> : i \in 1..Len(Ev.got)} = Ideal(Ev.cells)
             /\ l' = l + 1
Next == TFormulas
Spec == Init /\ [][Next]_l

Accepted ==
  LET d == TLCGet("stats").diameter IN
  IF d - 1 = Len(Rec) THEN PrintT(<<"ACCEPTED", ToString(Len(Rec))>>)
  ELSE PrintT(<<"REJECTED", ToJson([at |-> d, event |-> Rec[d]])>>)
=============================================================================
