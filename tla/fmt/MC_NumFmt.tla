------------------------------ MODULE MC_NumFmt ------------------------------
(* The grammar writer as a state machine: one token per step.  sec = number of  *)
(* the section being written, typ = body type of the current section            *)
(* ("none" until the first body token), seen = kinds seen in section 1.         *)
EXTENDS NumFmt, Json

CONSTANTS MaxToks, UseNum, UseDate, UseElapsed, UseLit, UsePre, MaxSections

VARIABLES toks, sec, typ, body, dateSeen, done
vars == <<toks, sec, typ, body, dateSeen, done>>

Init == toks = <<>> /\ sec = 1 /\ typ = "none" /\ body = FALSE /\ dateSeen = FALSE /\ done = FALSE

Room == ~done /\ Len(toks) < MaxToks
Add(n) == toks' = Append(toks, n)

WPre(n)  == Room /\ n \in UsePre /\ ~body /\ Add(n) /\ UNCHANGED <<sec, typ, body, dateSeen, done>>
WLit(n)  == Room /\ n \in UseLit /\ Add(n) /\ UNCHANGED <<sec, typ, body, dateSeen, done>>
WNum(n)  == /\ Room /\ n \in UseNum /\ typ \in {"none", "num"}
            /\ (n = "General" => typ = "none")
            /\ Add(n) /\ typ' = "num" /\ body' = TRUE /\ UNCHANGED <<sec, dateSeen, done>>
WText    == /\ Room /\ typ \in {"none", "text"} /\ UseNum # {}
            /\ Add("@") /\ typ' = "text" /\ body' = TRUE /\ UNCHANGED <<sec, dateSeen, done>>
WDate(n) == /\ Room /\ n \in UseDate /\ typ \in {"none", "date"}
            /\ Add(n) /\ typ' = "date" /\ body' = TRUE /\ dateSeen' = TRUE /\ UNCHANGED <<sec, done>>
\* elapsed tokens only before any plain date token of the same section
WElapsed(n) == /\ Room /\ n \in UseElapsed /\ typ \in {"none", "date"} /\ ~dateSeen
               /\ Add(n) /\ typ' = "date" /\ body' = TRUE /\ UNCHANGED <<sec, dateSeen, done>>
WDSep(n) == /\ Room /\ n \in DSepToks /\ typ = "date" /\ UseDate # {}
            /\ Add(n) /\ UNCHANGED <<sec, typ, body, dateSeen, done>>
WSemi    == /\ Room /\ sec < MaxSections /\ toks # <<>>
            /\ Add(";") /\ sec' = sec + 1 /\ typ' = "none" /\ body' = FALSE /\ dateSeen' = FALSE /\ UNCHANGED done
WEnd     == ~done /\ toks # <<>> /\ done' = TRUE /\ UNCHANGED <<toks, sec, typ, body, dateSeen>>

Next == (\E n \in PreToks : WPre(n)) \/ (\E n \in LitToks : WLit(n)) \/ (\E n \in NumToks : WNum(n)) \/ WText
        \/ (\E n \in DateToks : WDate(n)) \/ (\E n \in ElapsedToks : WElapsed(n)) \/ (\E n \in DSepToks : WDSep(n))
        \/ WSemi \/ WEnd
Spec == Init /\ [][Next]_vars

\* the scanner classifies every format of the grammar correctly
Refines == done => Scanner(CharsOf(toks)) = Truth(toks)
Dump == done => PrintT(<<"REPLAY", ToJson([toks |-> toks, chars |-> CharsOf(toks), truth |-> Truth(toks)])>>)
=============================================================================
