SPECIFICATION Spec
CONSTANTS
  MaxToks = 3
  UseNum = {"0", "#", ".", "%", "General", "E+00"}
  UseDate = {"d", "mm", "yyyy", "h", "ss", "MM", "AM/PM", "am/pm", "A/P", "s", "YYYY"}
  UseElapsed = {"[h]", "[mm]", "[ss]", "[HH]"}
  UseLit = {"q_dmy", "q_us", "q_bs", "q_semi", "q_br", "bs_d", "bs_q", "us_m", "sp", "("}
  UsePre = {"[Red]", "[Magenta]", "[Yellow]", "[>=100]", "[$-409]", "[$USD-409]", "[DBNum1]"}
  MaxSections = 2
INVARIANTS Refines Dump
CHECK_DEADLOCK FALSE
