SPECIFICATION Spec
CONSTANTS
  MaxToks = 3
  UseNum = {"0", "#", "?", ".", ",", "%", "General", "E+00"}
  UseDate = {"d", "dd", "dddd", "m", "mm", "mmm", "yy", "yyyy", "h", "hh", "s", "ss", "DD", "MM", "YYYY", "HH", "SS", "AM/PM", "am/pm", "A/P"}
  UseElapsed = {"[h]", "[hh]", "[m]", "[mm]", "[s]", "[ss]", "[HH]", "[S]"}
  UseLit = {"q_x", "q_dmy", "q_hs", "q_us", "q_bs", "q_semi", "q_br", "bs_d", "bs_y", "bs_sp", "bs_q", "us_par", "us_m", "sp", "-", "$", "("}
  UsePre = {"[Red]", "[Magenta]", "[Blue]", "[Yellow]", "[Color10]", "[>=100]", "[<0]", "[$-409]", "[$USD-409]", "[$-F800]", "[DBNum1]"}
  MaxSections = 3
INVARIANTS Refines Dump
CHECK_DEADLOCK FALSE
