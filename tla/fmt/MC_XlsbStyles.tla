---------------------------- MODULE MC_XlsbStyles ----------------------------
(* Every style table within the bounds: BrtFmt ids from FmtIds (below and above  *)
(* 164, built-in date ids included, with any class) in every order,     *)
(* 1..MaxSxf style XFs (with date ids, they must not be counted), cell XFs over  *)
(* FmtIds + XfOnlyIds, both date systems.  Each table is printed once; the       *)
(* harness materialises it with one cell per (cell XF, encoding).                *)
EXTENDS XlsbStyles, Json

CONSTANTS FmtIds, XfOnlyIds, MaxFmts, Sxf, MaxXfs

\* style-XF layouts by name (cfg files cannot contain tuples)
SxfSet == IF Sxf = "one" THEN {<<0>>} ELSE {<<0>>, <<14, 0, 46>>}

VARIABLES t, done
vars == <<t, done>>

Classes == {"o", "dt", "td"}
LegalFmt(id, cls) == TRUE      \* any class may be declared under any id, built-in date ids included

Init == t = [fmts |-> <<>>, sxfs |-> <<>>, xfs |-> <<>>, d1904 |-> FALSE] /\ done = FALSE

WFmt(id, cls) == /\ ~done /\ t.xfs = <<>> /\ Len(t.fmts) < MaxFmts /\ LegalFmt(id, cls)
                 /\ ~HasFmt(t.fmts, id)
                 /\ t' = [t EXCEPT !.fmts = Append(@, [id |-> id, cls |-> cls])] /\ UNCHANGED done
WXf(id) == /\ ~done /\ Len(t.xfs) < MaxXfs
           /\ t' = [t EXCEPT !.xfs = Append(@, id)] /\ UNCHANGED done
WEnd(sx, d) == /\ ~done /\ t.xfs # <<>>
               /\ t' = [t EXCEPT !.sxfs = sx, !.d1904 = d] /\ done' = TRUE

Next == \/ \E id \in FmtIds, c \in Classes : WFmt(id, c)
        \/ \E id \in FmtIds \cup XfOnlyIds : WXf(id)
        \/ \E sx \in SxfSet, d \in BOOLEAN : WEnd(sx, d)
Spec == Init /\ [][Next]_vars

Cells == {<<xf, e>> : xf \in 0..(Len(t.xfs) - 1), e \in Encs}
Refines == done => \A c \in Cells : AsIs(t, c[1], c[2]) = Ideal(t, c[1], c[2])
Dump == done => PrintT(<<"REPLAY", ToJson([table |-> t,
                  ideal |-> [i \in 1..Len(t.xfs) |-> IdealClass(t, i - 1)]])>>)
=============================================================================
