\* next_cell AS PINNED (plain RK integers ignore the style): TLC must refute Refines
SPECIFICATION Spec
CONSTANTS
  DeclaredFirst = TRUE
  RkIntHonoursStyle = FALSE
  FmtIds = {164}
  XfOnlyIds = {0, 14}
  MaxFmts = 1
  Sxf = "one"
  MaxXfs = 1
INVARIANTS Refines
CHECK_DEADLOCK FALSE
