\* read_styles AS PINNED (built-in class first): TLC must refute Refines
SPECIFICATION Spec
CONSTANTS
  DeclaredFirst = FALSE
  RkIntHonoursStyle = TRUE
  FmtIds = {14}
  XfOnlyIds = {0}
  MaxFmts = 1
  Sxf = "one"
  MaxXfs = 1
INVARIANTS Refines
CHECK_DEADLOCK FALSE
