SPECIFICATION Spec
CONSTANTS
  DeclaredFirst = TRUE
  RkIntHonoursStyle = TRUE
  FmtIds = {14, 50, 163, 164, 400}
  XfOnlyIds = {0, 22, 46}
  MaxFmts = 2
  Sxf = "dates"
  MaxXfs = 2
INVARIANTS Refines Dump
CHECK_DEADLOCK FALSE
