SPECIFICATION Spec
CONSTANTS
  DeclaredFirst = TRUE
  RkIntHonoursStyle = TRUE
  FmtIds = {5, 14, 46, 50, 163, 164, 165, 400, 65535}
  XfOnlyIds = {0, 22, 47}
  MaxFmts = 2
  Sxf = "dates"
  MaxXfs = 2
INVARIANTS Refines Dump
CHECK_DEADLOCK FALSE
