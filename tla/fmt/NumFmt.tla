------------------------------- MODULE NumFmt -------------------------------
(***************************************************************************)
(* C10 -- is a number format a date/time format, an elapsed-time format,   *)
(* or neither?                                                             *)
(*                                                                         *)
(* WRITER: the spreadsheet number-format grammar as a token-level state    *)
(* machine.  A format is 1..n sections separated by ";"; a section is      *)
(* optional bracket prefixes (colour, condition, locale/currency) followed *)
(* by a body of ONE type: numeric (digit placeholders, General, E+00, %),  *)
(* date/time (d m y h s tokens, AM/PM, elapsed [h] [mm] [ss], separators)  *)
(* or text (@); literals (quoted text -- whose content may contain date    *)
(* letters, underscore, backslash --, \c, _c) may appear anywhere.         *)
(* Ground truth is known BY CONSTRUCTION from the first section: elapsed   *)
(* token present -> "td"; else date/time token present -> "dt"; else "o".  *)
(* Not generated (doubtful / locale specific): date token before an        *)
(* elapsed token in one section, numeric placeholders mixed with date      *)
(* tokens, aaa/aaaa weekday, e/g/b era tokens, "*" fill, literal "[" .     *)
(* READER: detect_custom_number_format of src/formats.rs, character level. *)
(***************************************************************************)
EXTENDS Naturals, Sequences, FiniteSets, TLC

\* token table: name -> [chars, kind]
Tok(n) ==
  CASE n = "0" -> [c |-> <<"0">>, k |-> "num"] [] n = "#" -> [c |-> <<"#">>, k |-> "num"]
    [] n = "?" -> [c |-> <<"?">>, k |-> "num"] [] n = "." -> [c |-> <<".">>, k |-> "num"]
    [] n = "," -> [c |-> <<",">>, k |-> "num"] [] n = "%" -> [c |-> <<"%">>, k |-> "num"]
    [] n = "General" -> [c |-> <<"G","e","n","e","r","a","l">>, k |-> "num"]
    [] n = "E+00" -> [c |-> <<"E","+","0","0">>, k |-> "num"]
    [] n = "@" -> [c |-> <<"@">>, k |-> "text"]
    \* literals
    [] n = "q_x"    -> [c |-> <<"\"","x","\"">>, k |-> "lit"]
    [] n = "q_dmy"  -> [c |-> <<"\"","d","m","y","\"">>, k |-> "lit"]
    [] n = "q_hs"   -> [c |-> <<"\"","h",":","s","\"">>, k |-> "lit"]
    [] n = "q_us"   -> [c |-> <<"\"","N","_","\"">>, k |-> "lit"]
    [] n = "q_bs"   -> [c |-> <<"\"","N","\\","\"">>, k |-> "lit"]
    [] n = "q_semi" -> [c |-> <<"\"",";","\"">>, k |-> "lit"]
    [] n = "q_br"   -> [c |-> <<"\"","[","h","]","\"">>, k |-> "lit"]
    [] n = "bs_d"   -> [c |-> <<"\\","d">>, k |-> "lit"]
    [] n = "bs_y"   -> [c |-> <<"\\","Y">>, k |-> "lit"]
    [] n = "bs_sp"  -> [c |-> <<"\\"," ">>, k |-> "lit"]
    [] n = "bs_q"   -> [c |-> <<"\\","\"">>, k |-> "lit"]
    [] n = "us_par" -> [c |-> <<"_",")">>, k |-> "lit"]
    [] n = "us_m"   -> [c |-> <<"_","m">>, k |-> "lit"]
    [] n = "sp"     -> [c |-> <<" ">>, k |-> "lit"]
    [] n = "-"      -> [c |-> <<"-">>, k |-> "lit"]
    [] n = "$"      -> [c |-> <<"$">>, k |-> "lit"]
    [] n = "("      -> [c |-> <<"(">>, k |-> "lit"]
    \* bracket prefixes
    [] n = "[Red]"     -> [c |-> <<"[","R","e","d","]">>, k |-> "pre"]
    [] n = "[Magenta]" -> [c |-> <<"[","M","a","g","e","n","t","a","]">>, k |-> "pre"]
    [] n = "[Blue]"    -> [c |-> <<"[","B","l","u","e","]">>, k |-> "pre"]
    [] n = "[Yellow]"  -> [c |-> <<"[","Y","e","l","l","o","w","]">>, k |-> "pre"]
    [] n = "[Color10]" -> [c |-> <<"[","C","o","l","o","r","1","0","]">>, k |-> "pre"]
    [] n = "[>=100]"   -> [c |-> <<"[",">","=","1","0","0","]">>, k |-> "pre"]
    [] n = "[<0]"      -> [c |-> <<"[","<","0","]">>, k |-> "pre"]
    [] n = "[$-409]"   -> [c |-> <<"[","$","-","4","0","9","]">>, k |-> "pre"]
    [] n = "[$USD-409]" -> [c |-> <<"[","$","U","S","D","-","4","0","9","]">>, k |-> "pre"]
    [] n = "[$-F800]"  -> [c |-> <<"[","$","-","F","8","0","0","]">>, k |-> "pre"]
    [] n = "[DBNum1]"  -> [c |-> <<"[","D","B","N","u","m","1","]">>, k |-> "pre"]
    \* date / time tokens
    [] n = "d" -> [c |-> <<"d">>, k |-> "date"] [] n = "dd" -> [c |-> <<"d","d">>, k |-> "date"]
    [] n = "dddd" -> [c |-> <<"d","d","d","d">>, k |-> "date"]
    [] n = "m" -> [c |-> <<"m">>, k |-> "date"] [] n = "mm" -> [c |-> <<"m","m">>, k |-> "date"]
    [] n = "mmm" -> [c |-> <<"m","m","m">>, k |-> "date"]
    [] n = "yy" -> [c |-> <<"y","y">>, k |-> "date"] [] n = "yyyy" -> [c |-> <<"y","y","y","y">>, k |-> "date"]
    [] n = "h" -> [c |-> <<"h">>, k |-> "date"] [] n = "hh" -> [c |-> <<"h","h">>, k |-> "date"]
    [] n = "s" -> [c |-> <<"s">>, k |-> "date"] [] n = "ss" -> [c |-> <<"s","s">>, k |-> "date"]
    [] n = "DD" -> [c |-> <<"D","D">>, k |-> "date"] [] n = "MM" -> [c |-> <<"M","M">>, k |-> "date"]
    [] n = "YYYY" -> [c |-> <<"Y","Y","Y","Y">>, k |-> "date"] [] n = "HH" -> [c |-> <<"H","H">>, k |-> "date"]
    [] n = "SS" -> [c |-> <<"S","S">>, k |-> "date"]
    [] n = "AM/PM" -> [c |-> <<"A","M","/","P","M">>, k |-> "date"]
    [] n = "am/pm" -> [c |-> <<"a","m","/","p","m">>, k |-> "date"]
    [] n = "A/P" -> [c |-> <<"A","/","P">>, k |-> "date"]
    [] n = "[h]" -> [c |-> <<"[","h","]">>, k |-> "elapsed"] [] n = "[hh]" -> [c |-> <<"[","h","h","]">>, k |-> "elapsed"]
    [] n = "[m]" -> [c |-> <<"[","m","]">>, k |-> "elapsed"] [] n = "[mm]" -> [c |-> <<"[","m","m","]">>, k |-> "elapsed"]
    [] n = "[s]" -> [c |-> <<"[","s","]">>, k |-> "elapsed"] [] n = "[ss]" -> [c |-> <<"[","s","s","]">>, k |-> "elapsed"]
    [] n = "[HH]" -> [c |-> <<"[","H","H","]">>, k |-> "elapsed"] [] n = "[S]" -> [c |-> <<"[","S","]">>, k |-> "elapsed"]
    [] n = "/" -> [c |-> <<"/">>, k |-> "dsep"] [] n = ":" -> [c |-> <<":">>, k |-> "dsep"]
    [] n = ".0" -> [c |-> <<".","0">>, k |-> "dsep"]
    [] n = ";" -> [c |-> <<";">>, k |-> "semi"]

NumToks  == {"0", "#", "?", ".", ",", "%", "General", "E+00"}
TextToks == {"@"}
LitToks  == {"q_x", "q_dmy", "q_hs", "q_us", "q_bs", "q_semi", "q_br", "bs_d", "bs_y", "bs_sp", "bs_q", "us_par", "us_m", "sp", "-", "$", "("}
PreToks  == {"[Red]", "[Magenta]", "[Blue]", "[Yellow]", "[Color10]", "[>=100]", "[<0]", "[$-409]", "[$USD-409]", "[$-F800]", "[DBNum1]"}
DateToks == {"d", "dd", "dddd", "m", "mm", "mmm", "yy", "yyyy", "h", "hh", "s", "ss", "DD", "MM", "YYYY", "HH", "SS", "AM/PM", "am/pm", "A/P"}
ElapsedToks == {"[h]", "[hh]", "[m]", "[mm]", "[s]", "[ss]", "[HH]", "[S]"}
DSepToks == {"/", ":", ".0"}

RECURSIVE CharsOf(_)
CharsOf(toks) == IF toks = <<>> THEN <<>> ELSE Tok(Head(toks)).c \o CharsOf(Tail(toks))

\* ground truth from the first section
FirstSection(toks) == LET semis == {i \in 1..Len(toks) : toks[i] = ";"} IN
                      IF semis = {} THEN toks ELSE SubSeq(toks, 1, (CHOOSE i \in semis : \A j \in semis : i <= j) - 1)
Truth(toks) == LET s == FirstSection(toks) IN
               IF \E i \in 1..Len(s) : Tok(s[i]).k = "elapsed" THEN "td"
               ELSE IF \E i \in 1..Len(s) : Tok(s[i]).k = "date" THEN "dt" ELSE "o"

--------------------------------------------------------------------------
(* READER: detect_custom_number_format, one character per step *)
IsHMS(c) == c \in {"m", "h", "s", "M", "H", "S"}
LowerOf(c) == CASE c = "M" -> "m" [] c = "H" -> "h" [] c = "S" -> "s" [] c = "D" -> "d" [] c = "Y" -> "y"
                [] c = "A" -> "a" [] c = "P" -> "p" [] OTHER -> c
EqIgnoreCase(a, b) == LowerOf(a) = LowerOf(b)

SInit == [escaped |-> FALSE, quote |-> FALSE, br |-> 0, prev |-> " ", hms |-> FALSE, ap |-> FALSE, ret |-> "none"]
SStep(st, s) ==
  IF st.ret # "none" THEN st
  ELSE LET st2 ==
         IF st.escaped THEN [st EXCEPT !.escaped = FALSE]
         ELSE IF s = "\"" /\ st.quote THEN [st EXCEPT !.quote = FALSE]
         ELSE IF st.quote THEN st
         ELSE IF s \in {"_", "\\"} THEN [st EXCEPT !.escaped = TRUE]
         ELSE IF s = "\"" THEN [st EXCEPT !.quote = TRUE]
         ELSE IF s = ";" THEN [st EXCEPT !.ret = "o"]
         ELSE IF s = "[" THEN [st EXCEPT !.br = @ + 1]
         ELSE IF s = "]" /\ st.br = 1 /\ st.hms THEN [st EXCEPT !.ret = "td"]
         ELSE IF s = "]" THEN [st EXCEPT !.br = IF @ > 0 THEN @ - 1 ELSE 0]
         ELSE IF s \in {"a", "A"} /\ ~st.ap /\ st.br = 0 THEN [st EXCEPT !.ap = TRUE]
         ELSE IF s \in {"p", "m", "/", "P", "M"} /\ st.ap /\ st.br = 0 THEN [st EXCEPT !.ret = "dt"]
         ELSE IF s \in {"d", "m", "h", "y", "s", "D", "M", "H", "Y", "S"} /\ ~st.ap /\ st.br = 0 THEN [st EXCEPT !.ret = "dt"]
         ELSE IF st.hms /\ EqIgnoreCase(s, st.prev) THEN st
         ELSE [st EXCEPT !.hms = (st.prev = "[" /\ IsHMS(s))]
       IN [st2 EXCEPT !.prev = s]

RECURSIVE ScanFrom(_, _, _)
ScanFrom(st, chars, i) == IF i > Len(chars) \/ st.ret # "none" THEN st ELSE ScanFrom(SStep(st, chars[i]), chars, i + 1)
Scanner(chars) == LET r == ScanFrom(SInit, chars, 1).ret IN IF r = "none" THEN "o" ELSE r

\* built-in ids
BuiltinClass(id) == IF id \in (14..22) \cup {45, 47} THEN "dt" ELSE IF id = 46 THEN "td" ELSE "o"
=============================================================================
