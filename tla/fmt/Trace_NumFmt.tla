------------------------------ MODULE Trace_NumFmt ------------------------------
(* code -> spec: the real classifier called (through the verification window) on  *)
(* EVERY string up to a length over the scanner's significant alphabet, and the  *)
(* built-in id tables on every id; each recorded result must be what the         *)
(* transcribed scanner / BuiltinClass computes.                                   *)
EXTENDS NumFmt, Json, IOUtils

Rec == ndJsonDeserialize(IOEnv.TRACE)
VARIABLES l
Ev == Rec[l]
Init == l = 1
TFmt == /\ l <= Len(Rec) /\ Ev.e = "fmt" /\ "panic" \notin DOMAIN Ev
        /\ Scanner(Ev.chars) = Ev.class
        /\ l' = l + 1
TBuiltin == /\ l <= Len(Rec) /\ Ev.e = "builtin"
            /\ BuiltinClass(Ev.id) = Ev.by_id /\ BuiltinClass(Ev.id) = Ev.by_code
            /\ l' = l + 1
Next == TFmt \/ TBuiltin
Spec == Init /\ [][Next]_l
Accepted ==
  LET d == TLCGet("stats").diameter IN
  IF d - 1 = Len(Rec) THEN PrintT(<<"ACCEPTED", ToString(Len(Rec))>>)
  ELSE PrintT(<<"REJECTED", ToJson([at |-> d, event |-> Rec[d]])>>)
=============================================================================
