----------------------------- MODULE XlsbStyles -----------------------------
(***************************************************************************)
(* C10, xlsb part -- from a numeric cell to its number-format class        *)
(* through the style table of xl/styles.bin.                               *)
(*                                                                         *)
(* A style table is                                                        *)
(*   fmts   : Seq([id, cls])  BrtFmt records in file order; cls = class    *)
(*            ("o" | "dt" | "td") of the format STRING (ground truth by    *)
(*            construction, see NumFmt.tla); ids pairwise distinct         *)
(*   sxfs   : Seq(id)         numFmtIds of the style XFs                   *)
(*            (BrtBeginCellStyleXFs, in front of the cell XFs)             *)
(*   xfs    : Seq(id)         numFmtIds of the cell XFs (BrtBeginCellXFs)  *)
(*   d1904  : BOOLEAN         BrtWbProp.f1904                              *)
(* and a numeric cell is (xf, enc): iStyleRef = xf (0-based) and enc one   *)
(* of  real fnum rki rki100 rkf rkf100  (BrtCellReal, BrtFmlaNum, BrtCellRk*)
(* with fInt / fInt+fX100 / double / double+fX100).                        *)
(*                                                                         *)
(*  Ideal : the statement -- DateTime iff the format the cell's style      *)
(*          refers to is a date/time format (duration iff elapsed), for    *)
(*          every encoding of the number.  The format an id refers to is   *)
(*          the BrtFmt with that id if the part has one, else the built-in *)
(*          format of that id -- including a BrtFmt that declares a string *)
(*          of another class under a built-in date/time id (the style      *)
(*          refers to what the workbook declares; xlsx and xls readers     *)
(*          already did so).                                               *)
(*  Reader: Xlsb::read_styles (number_formats map, then one CellFormat per *)
(*          BrtXF of BrtBeginCellXFs), cell_format (formats.get(iStyleRef))*)
(*          and the value wrapping of next_cell.                           *)
(* DeclaredFirst = FALSE is read_styles as pinned: built-in class first,   *)
(*   custom map second -- a declared format under a built-in date id was   *)
(*   ignored; refuted by TLC (MC_XlsbStyles_asis_builtin.cfg).  TRUE =     *)
(*   after the repair ee5c309 (custom map first).                          *)
(* RkIntHonoursStyle = FALSE is next_cell as pinned: a BrtCellRk with fInt *)
(*   and without fX100 yields DataRef::Int whatever the style says;        *)
(*   refuted by TLC (MC_XlsbStyles_asis.cfg).  TRUE = after the repair.    *)
(***************************************************************************)
EXTENDS Naturals, Sequences, FiniteSets, TLC

CONSTANTS RkIntHonoursStyle, DeclaredFirst

BuiltinClass(id) == IF id \in (14..22) \cup {45, 47} THEN "dt" ELSE IF id = 46 THEN "td" ELSE "o"
Encs == {"real", "fnum", "rki", "rki100", "rkf", "rkf100"}

HasFmt(fmts, id) == \E i \in 1..Len(fmts) : fmts[i].id = id
FmtCls(fmts, id) == fmts[CHOOSE i \in 1..Len(fmts) : fmts[i].id = id].cls

\* IDEAL
IdealClass(t, xf) == LET id == t.xfs[xf + 1] IN
                     IF HasFmt(t.fmts, id) THEN FmtCls(t.fmts, id) ELSE BuiltinClass(id)
Ideal(t, xf, enc) == [cls |-> IdealClass(t, xf), d1904 |-> t.d1904]

\* READER
\* number_formats.insert(fmt_code, class) for every BrtFmt, in file order (later wins)
RECURSIVE NumberFormats(_, _, _)
NumberFormats(fmts, i, m) ==
  IF i > Len(fmts) THEN m
  ELSE NumberFormats(fmts, i + 1,
         [id \in DOMAIN m \cup {fmts[i].id} |-> IF id = fmts[i].id THEN fmts[i].cls ELSE m[id]])
\* formats: one entry per BrtXF that follows BrtBeginCellXFs (the style XFs in front of it are
\* skipped by the generic arm of the record loop)
Formats(t) ==
  LET nf == NumberFormats(t.fmts, 1, <<>>) IN
  [i \in 1..Len(t.xfs) |->
     LET id == t.xfs[i] IN
     IF DeclaredFirst
       THEN (IF id \in DOMAIN nf THEN nf[id] ELSE BuiltinClass(id))
       ELSE (IF BuiltinClass(id) # "o" THEN BuiltinClass(id)
             ELSE IF id \in DOMAIN nf THEN nf[id] ELSE "o")]
\* next_cell: cell_format = formats.get(iStyleRef); format_excel_f64_ref for every encoding
\* except the plain RK integer
AsIs(t, xf, enc) ==
  LET f == Formats(t)
      c == IF xf + 1 \in DOMAIN f THEN f[xf + 1] ELSE "o"
  IN [cls |-> IF enc = "rki" /\ ~RkIntHonoursStyle THEN "o" ELSE c, d1904 |-> t.d1904]
=============================================================================
