----------------------------- MODULE MC_Pictures -----------------------------
(* X06, legs 0 and 1.  One state per document:                                                      *)
(*  zip : a package of up to MaxParts extra parts from the name alphabet, in each of xlsx/xlsb/ods;  *)
(*  xls : a picture store of up to two entries (every blip kind, one or two UIDs, empty or three-byte *)
(*        payload, with or without a name, entries that only refer to a picture), written as an       *)
(*        OfficeArt stream, cut into MsoDrawingGroup / CONTINUE records in every way of `Cuts`, and   *)
(*        malformed in one of the ways of `Hostile` (applied to the first entry).                     *)
(* TLC checks Refines (outside the named deviations the transcribed reader reports the ideal          *)
(* pictures; a malformed store is an error -- with Hardened = FALSE the panic sites are reached and   *)
(* named); every document is exported, built into a real file and read by calamine.                   *)
EXTENDS Pictures, Json

CONSTANTS ZipFmts, MaxParts, Cuts, Hostile, Kinds2

VARIABLE doc
Bytes3 == <<1, 2, 3>>

\* name alphabet of the zip side
Dirs(fmt) == IF fmt = "ods" THEN {"Pictures/", "PicturesOld/", "Thumbnails/", "Pic/"} ELSE {"xl/media/", "xl/mediaold/", "xl/worksheets/", "xl/med/"}
Names == {<<"image1", "png">>, <<"image2", "jpeg">>, <<"image3", "PNG">>, <<"a", "b", "gif">>, <<"png">>, <<"image1", "xml">>, <<"image1", "png", "bak">>}
PartSet(fmt) == {[dir |-> d, segs |-> n, bytes |-> <<Len(n), Len(d)>>] : d \in Dirs(fmt), n \in Names}
RECURSIVE Lists(_, _)
Lists(S, n) == IF n = 0 THEN {<<>>} ELSE Lists(S, n - 1) \cup {Append(l, x) : l \in {m \in Lists(S, n - 1) : Len(m) = n - 1}, x \in S}
Distinct(l) == \A i, j \in 1..Len(l) : i # j => (l[i].dir # l[j].dir \/ l[i].segs # l[j].segs)
ZipDocs == UNION {{[k |-> "zip", fmt |-> f, parts |-> l] : l \in {m \in Lists(PartSet(f), MaxParts) : Distinct(m)}} : f \in ZipFmts}

Blips(ks) == {[kind |-> k, two |-> t, bytes |-> b] : k \in ks, t \in BOOLEAN, b \in {<<>>, Bytes3}}
Entries(ks) == {[name |-> n, blip |-> <<bl>>] : n \in {0, 2}, bl \in Blips(ks)} \cup {[name |-> n, blip |-> <<>>] : n \in {0, 2}}
Stores == {<<>>} \cup {<<a>> : a \in Entries(BlipKinds)} \cup {<<a, b>> : a \in Entries(BlipKinds), b \in Entries(Kinds2)}

\* ways of malforming the FIRST entry of the store (records stay well framed, their content is wrong):
\*  "inst"  the blip's instance is one its type does not have     "blip"  the blip keeps 10 bytes of data
\*  "fbse"  the entry keeps 20 bytes of data                      "name"  the entry's cbName says 200
\* and of the stream:  "lowtype" the outermost type is 0x0F00     "cut"   the last 3 bytes are missing
NeedsBlip(h) == h \in {"inst", "blip"}
Applies(store, h) == h = "none" \/ (h \in {"lowtype", "cut"}) \/ (store # <<>> /\ (NeedsBlip(h) => store[1].blip # <<>>))
BlipRecH(bl, h) == ArtRec(0, KInst(bl.kind) + (IF bl.two THEN 1 ELSE 0) + (IF h = "inst" THEN 7 ELSE 0), KType(bl.kind),
                          IF h = "blip" THEN Take(BlipData(bl), 10) ELSE BlipData(bl))
FbseDataH(e, h) == Fill(33, 1) \o <<IF h = "name" THEN 200 ELSE e.name>> \o <<0, 0>> \o Fill(e.name, 78)
                   \o (IF e.blip = <<>> THEN <<>> ELSE BlipRecH(e.blip[1], h))
FbseRecH(e, h) == ArtRec(2, 6, 61447, IF h = "fbse" THEN Take(FbseDataH(e, h), 20) ELSE FbseDataH(e, h))
StreamH(store, h) ==
  LET body == ArtRec(0, 0, 61446, Fill(16, 0))
              \o (IF store = <<>> THEN <<>>
                  ELSE ArtRec(15, Len(store), 61441,
                              FlattenSeq([k \in 1..Len(store) |-> FbseRecH(store[k], IF k = 1 THEN h ELSE "none")])))
              \o ArtRec(3, 1, 61451, Fill(6, 0))
      st == ArtRec(15, 0, IF h = "lowtype" THEN 3840 ELSE 61440, body)
  IN IF h = "cut" THEN Take(st, Len(st) - 3) ELSE st

\* ways of cutting the stream into record bodies: <<kind, body>> with kind "eb" (a MsoDrawingGroup record) or
\* "cont" (a CONTINUE record of the one before)
CutInto(st, c) ==
  CASE c = "whole" -> << <<"eb", st>> >>
    [] c = "cont"  -> << <<"eb", Take(st, 11)>>, <<"cont", Drop(st, 11)>> >>           \* inside the second header
    [] c = "two"   -> << <<"eb", Take(st, Len(st) \div 2)>>, <<"eb", Drop(st, Len(st) \div 2)>> >>
    [] c = "three" -> << <<"eb", Take(st, 8)>>, <<"cont", SubSeq(st, 9, 30)>>, <<"eb", Drop(st, 30)>> >>
    [] c = "absent" -> <<>>
XlsDocs == {[k |-> "xls", store |-> s, h |-> h, cut |-> c] : s \in Stores, h \in Hostile, c \in Cuts}

Docs == ZipDocs \cup {d \in XlsDocs : Applies(d.store, d.h) /\ (d.cut = "absent" => d.h = "none" /\ d.store = <<>>)}
Init == doc \in Docs
Next == UNCHANGED doc
Spec == Init /\ [][Next]_doc

Recs(d) == CutInto(StreamH(d.store, d.h), d.cut)
AsIs(d) == IF d.k = "zip" THEN ZipPictures(d.fmt, d.parts)
           ELSE XlsPictures([i \in 1..Len(Recs(d)) |-> Recs(d)[i][2]])
Ideal(d) == IF d.k = "zip" THEN ZipIdeal(d.fmt, d.parts)
            ELSE IF d.h = "none" THEN StoreIdeal(d.store) ELSE <<"err">>
Dev(d) == IF d.k = "zip" THEN ZipDev(d.fmt, d.parts) ELSE {}
IsPanic(r) == r[1] = "err" /\ r[2] \in {"panic:fbse-name-length", "panic:fbse-skip", "panic:blip-instance", "panic:blip-skip"}

Why(name) == PrintT(<<"WHY", name, doc>>) /\ FALSE
Refines ==
  LET a == AsIs(doc)
      i == Ideal(doc)
  IN /\ PrintT(<<"REPLAY", ToJson([doc |-> doc, recs |-> IF doc.k = "xls" THEN Recs(doc) ELSE <<>>,
                                   asis |-> a, ideal |-> i, dev |-> Dev(doc)])>>)
     /\ (doc.k = "zip" => ((Dev(doc) = {}) <=> (a = i))) \/ Why("zip: deviation set and as-is reading disagree")
     /\ (doc.k = "xls" /\ doc.h = "none" => a = i) \/ Why("xls: a well-formed store is not read as the ideal says")
     /\ (doc.k = "xls" /\ doc.h # "none" => a[1] = "err") \/ Why("xls: a malformed store is not an error")
     /\ (doc.k = "xls" /\ Hardened => ~IsPanic(a)) \/ Why("xls: the hardened reader reaches a panic site")
\* (self-test of the model, MC_Pictures_aswas.cfg: with Hardened = FALSE the four panic sites are reached)
NoPanic == doc.k = "xls" => ~IsPanic(AsIs(doc))
=============================================================================
