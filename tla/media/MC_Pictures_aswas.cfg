SPECIFICATION Spec
CONSTANTS
  Hardened = FALSE
  ZipFmts = {}
  MaxParts = 0
  Cuts = {"whole"}
  Hostile = {"none", "inst", "blip", "fbse", "name"}
  Kinds2 = {"png"}
INVARIANTS NoPanic
CHECK_DEADLOCK FALSE
