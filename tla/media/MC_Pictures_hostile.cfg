SPECIFICATION Spec
CONSTANTS
  Hardened = TRUE
  ZipFmts = {}
  MaxParts = 0
  Cuts = {"whole", "cont", "two", "three"}
  Hostile = {"inst", "blip", "fbse", "name", "lowtype", "cut"}
  Kinds2 = {"png", "emf"}
INVARIANTS Refines
CHECK_DEADLOCK FALSE
