SPECIFICATION Spec
CONSTANTS
  Hardened = TRUE
  ZipFmts = {"xlsx", "xlsb", "ods"}
  MaxParts = 2
  Cuts = {"whole", "cont", "two", "three", "absent"}
  Hostile = {"none", "inst", "blip", "fbse", "name", "lowtype", "cut"}
  Kinds2 = {"png", "emf"}
INVARIANTS Refines
CHECK_DEADLOCK FALSE
