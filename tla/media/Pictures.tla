------------------------------ MODULE Pictures ------------------------------
(***************************************************************************)
(* X06 (extended coverage) -- Reader::pictures() (cargo feature "picture"):*)
(* the images embedded in a workbook as (extension, bytes) pairs.          *)
(*                                                                         *)
(* ZIP formats (src/xlsx/mod.rs, src/xlsb/mod.rs read_pictures, src/ods.rs *)
(* read_pictures): the parts of the package in package order whose name    *)
(* starts with the media prefix ("xl/media" / "Pictures") and whose text   *)
(* after the last '.' is one of twelve extensions.  A part name is         *)
(* [dir, segs]: the directory text and the '.'-separated segments of the   *)
(* file name.                                                              *)
(*                                                                         *)
(* XLS (src/xls.rs parse_workbook arm 0x00EB + parse_pictures +            *)
(* ArtRecordIter): the bodies of all MsoDrawingGroup records and of their  *)
(* CONTINUE records are concatenated and read as a tree of OfficeArt       *)
(* records  <ver/instance u16, type u16, length u32, data>:                *)
(*   F000 DggContainer, F001 BStoreContainer -> their records;             *)
(*   F007 FBSE -> the records after its 36-byte header and name;           *)
(*   F01A..F01F, F029, F02A blips -> (extension by type, data after the    *)
(*   1 or 2 UIDs, the tag byte and, for metafiles, the 34-byte header);    *)
(*   anything else is skipped.                                             *)
(* The writer below produces such streams from a logical picture store,    *)
(* the reader is the transcription; `panic:<site>` marks the places where  *)
(* the code as pinned indexes or matches without a test.                   *)
(*                                                                         *)
(* IDEAL: the pictures are the images of the store, in order, byte-exact,  *)
(* labelled by kind; None when there are none; a malformed store is an     *)
(* error, never a panic (that part is property C06's statement).           *)
(***************************************************************************)
EXTENDS Naturals, Sequences, FiniteSets, TLC, SequencesExt

\* Hardened = TRUE: the reader as repaired by /repo fecc773 (the FBSE header, the FBSE name length, the blip
\* header and the blip instance are tested and give errors).  FALSE: the reader as pinned, which indexes and
\* matches without a test -- kept as a configuration TLC has to refute (MC_Pictures_aswas.cfg).
CONSTANT Hardened

Exts == {"emf", "wmf", "pict", "jpeg", "jpg", "png", "dib", "gif", "tiff", "eps", "bmp", "wpg"}
Lower(e) == CASE e = "PNG" -> "png" [] e = "JPG" -> "jpg" [] OTHER -> e

--------------------------------------------------------------------------
(* zip packages *)
MediaPrefix(fmt) == IF fmt = "ods" THEN "Pictures" ELSE "xl/media"
\* does the directory text start with the prefix (str::starts_with on the whole part name)
StartsWithPrefix(fmt, dir) ==
  IF fmt = "ods" THEN dir \in {"Pictures/", "PicturesOld/"}
  ELSE dir \in {"xl/media/", "xl/mediaold/"}
IsMediaDir(fmt, dir) == IF fmt = "ods" THEN dir = "Pictures/" ELSE dir = "xl/media/"
LastSeg(p) == p.segs[Len(p.segs)]
\* as-is
\* (name.split('.').last() of a name without a dot is the whole name, directory included: never an extension)
ZipIncluded(fmt, p) == StartsWithPrefix(fmt, p.dir) /\ Len(p.segs) >= 2 /\ LastSeg(p) \in Exts
ZipPictures(fmt, parts) ==
  LET inc == SelectSeq(parts, LAMBDA p : ZipIncluded(fmt, p))
  IN IF inc = <<>> THEN <<"none">> ELSE <<"some", [k \in 1..Len(inc) |-> <<LastSeg(inc[k]), inc[k].bytes>>]>>
\* ideal: a file of the media directory with an image extension, whatever its letter case
ZipIdealInc(fmt, p) == IsMediaDir(fmt, p.dir) /\ Len(p.segs) >= 2 /\ Lower(LastSeg(p)) \in Exts
ZipIdeal(fmt, parts) ==
  LET inc == SelectSeq(parts, LAMBDA p : ZipIdealInc(fmt, p))
  IN IF inc = <<>> THEN <<"none">> ELSE <<"some", [k \in 1..Len(inc) |-> <<Lower(LastSeg(inc[k])), inc[k].bytes>>]>>
ZipDev(fmt, parts) ==
  UNION {(IF StartsWithPrefix(fmt, parts[k].dir) /\ ~IsMediaDir(fmt, parts[k].dir) /\ Len(parts[k].segs) >= 2 /\ LastSeg(parts[k]) \in Exts THEN {"MediaPrefixNotDir"} ELSE {})
         \cup (IF IsMediaDir(fmt, parts[k].dir) /\ Len(parts[k].segs) >= 2 /\ LastSeg(parts[k]) \notin Exts /\ Lower(LastSeg(parts[k])) \in Exts
               THEN {"UpperCaseExtension"} ELSE {}) : k \in 1..Len(parts)}

--------------------------------------------------------------------------
(* OfficeArt: writer *)
LE16(n) == <<n % 256, n \div 256>>
LE32(n) == <<n % 256, (n \div 256) % 256, (n \div 65536) % 256, n \div 16777216>>
U16(d, i) == d[i] + 256 * d[i + 1]
U32(d, i) == d[i] + 256 * d[i + 1] + 65536 * d[i + 2] + 16777216 * d[i + 3]
Drop(s, n) == SubSeq(s, n + 1, Len(s))
Take(s, n) == SubSeq(s, 1, n)
Fill(n, b) == [k \in 1..n |-> b]

ArtRec(ver, inst, typ, data) == LE16(ver + 16 * inst) \o LE16(typ) \o LE32(Len(data)) \o data

\* blip kinds: type, instance with one UID (two UIDs: + 1), extension, metafile?
BlipKinds == {"emf", "wmf", "pict", "jpeg", "cmyk", "png", "dib", "tiff"}
KType(k) == CASE k = "emf" -> 61466 [] k = "wmf" -> 61467 [] k = "pict" -> 61468 [] k = "jpeg" -> 61469
              [] k = "png" -> 61470 [] k = "dib" -> 61471 [] k = "tiff" -> 61481 [] k = "cmyk" -> 61482
KInst(k) == CASE k = "emf" -> 980 [] k = "wmf" -> 534 [] k = "pict" -> 1346 [] k = "jpeg" -> 1130
              [] k = "png" -> 1760 [] k = "dib" -> 1960 [] k = "tiff" -> 1764 [] k = "cmyk" -> 1762
KExt(k) == CASE k = "jpeg" -> "jpg" [] k = "cmyk" -> "jpg" [] OTHER -> k
KMeta(k) == k \in {"emf", "wmf", "pict"}
\* a blip is [kind, two (second UID present), bytes]
BlipData(bl) == Fill(16, 170) \o (IF bl.two THEN Fill(16, 187) ELSE <<>>)
                \o (IF KMeta(bl.kind) THEN Fill(34, 204) ELSE <<255>>) \o bl.bytes
BlipRec(bl) == ArtRec(0, KInst(bl.kind) + (IF bl.two THEN 1 ELSE 0), KType(bl.kind), BlipData(bl))
\* a store entry is [name (number of name bytes), blip (<<>> or <<blip>>: an entry may only refer to a picture)]
FbseData(e) == Fill(33, 1) \o <<e.name>> \o <<0, 0>> \o Fill(e.name, 78)
               \o (IF e.blip = <<>> THEN <<>> ELSE BlipRec(e.blip[1]))
FbseRec(e) == ArtRec(2, 6, 61447, FbseData(e))
\* the drawing group: DggContainer { Dgg atom, BStoreContainer { entries }, an option table }
Dgg(store) == ArtRec(15, 0, 61440,
                ArtRec(0, 0, 61446, Fill(16, 0))
                \o (IF store = <<>> THEN <<>> ELSE ArtRec(15, Len(store), 61441, FlattenSeq([k \in 1..Len(store) |-> FbseRec(store[k])])))
                \o ArtRec(3, 1, 61451, Fill(6, 0)))

StoreIdeal(store) ==
  LET with == SelectSeq(store, LAMBDA e : e.blip # <<>>)
  IN IF with = <<>> THEN <<"none">> ELSE <<"some", [k \in 1..Len(with) |-> <<KExt(with[k].blip[1].kind), with[k].blip[1].bytes>>]>>

--------------------------------------------------------------------------
(* OfficeArt: reader (transcription) -- result [err, pics] *)
ROk(p) == [err |-> "", pics |-> p]
RErr(e) == [err |-> e, pics |-> <<>>]
Skip(typ, inst) ==
  CASE typ \in {61466, 61467, 61468} ->
         (LET base == CASE typ = 61466 -> 980 [] typ = 61467 -> 534 [] OTHER -> 1346
          IN IF inst = base THEN 50 ELSE IF inst = base + 1 THEN 66 ELSE 0)
    [] typ \in {61469, 61482} -> IF inst \in {1130, 1762} THEN 17 ELSE IF inst \in {1131, 1763} THEN 33 ELSE 0
    [] typ = 61470 -> IF inst = 1760 THEN 17 ELSE IF inst = 1761 THEN 33 ELSE 0
    [] typ = 61471 -> IF inst = 1960 THEN 17 ELSE IF inst = 1961 THEN 33 ELSE 0
    [] typ = 61481 -> IF inst = 1764 THEN 17 ELSE IF inst = 1765 THEN 33 ELSE 0
TExt(typ) == CASE typ = 61466 -> "emf" [] typ = 61467 -> "wmf" [] typ = 61468 -> "pict" [] typ \in {61469, 61482} -> "jpg"
               [] typ = 61470 -> "png" [] typ = 61471 -> "dib" [] typ = 61481 -> "tiff"
BlipTypes == {61466, 61467, 61468, 61469, 61470, 61471, 61481, 61482}

RECURSIVE Parse(_)
Parse(st) ==
  IF st = <<>> THEN ROk(<<>>)
  ELSE IF Len(st) < 8 THEN RErr("EoStream(art record header)")
  ELSE LET inst == U16(st, 1) \div 16
           typ  == U16(st, 3)
           len  == U32(st, 5)
       IN IF typ < 61440 THEN RErr("Art(type range)")
          ELSE IF Len(st) < len + 8 THEN RErr("EoStream(art record length)")
          ELSE LET data == SubSeq(st, 9, 8 + len)
                   here ==
                     CASE typ \in {61440, 61441} -> Parse(data)
                       [] typ = 61447 ->
                            IF Len(data) < 34 THEN (IF Hardened THEN RErr("Len(FBSE)") ELSE RErr("panic:fbse-name-length"))
                            ELSE LET skip == 36 + data[34]
                                 IN IF skip > Len(data) THEN (IF Hardened THEN RErr("Len(FBSE)") ELSE RErr("panic:fbse-skip"))
                                    ELSE Parse(Drop(data, skip))
                       [] typ \in BlipTypes ->
                            LET skip == Skip(typ, inst)
                            IN IF skip = 0 THEN (IF Hardened THEN RErr("Art(blip instance)") ELSE RErr("panic:blip-instance"))
                               ELSE IF skip > Len(data) THEN (IF Hardened THEN RErr("Len(blip)") ELSE RErr("panic:blip-skip"))
                               ELSE ROk(<< <<TExt(typ), Drop(data, skip)>> >>)
                       [] OTHER -> ROk(<<>>)
               IN IF here.err # "" THEN here
                  ELSE LET rest == Parse(Drop(st, len + 8))
                       IN IF rest.err # "" THEN rest ELSE ROk(here.pics \o rest.pics)

\* the workbook arm: the bodies of the 0x00EB records and their CONTINUEs, concatenated; pictures = None
\* when the stream is empty or holds no picture
XlsPictures(bodies) ==
  LET st == FlattenSeq(bodies)
      r == IF st = <<>> THEN ROk(<<>>) ELSE Parse(st)
  IN IF r.err # "" THEN <<"err", r.err>> ELSE IF r.pics = <<>> THEN <<"none">> ELSE <<"some", r.pics>>
=============================================================================
