SPECIFICATION Spec
POSTCONDITION Accepted
CHECK_DEADLOCK FALSE
