--------------------------- MODULE Trace_Pictures ---------------------------
(* X06, leg 2 (code -> spec).                                                                      *)
(*  "fixture": the repository's picture.xlsx / .xlsb / .xls / .ods were saved by spreadsheet       *)
(*     applications from one workbook holding picture.jpg and picture.png: every format must report *)
(*     exactly those two images, byte for byte (length and checksum), each under its extension.     *)
(*  "store": a random picture store of 0..6 entries with payloads of up to 20 000 bytes, written    *)
(*     as an OfficeArt stream cut at random places into MsoDrawingGroup / CONTINUE records: the     *)
(*     pictures are the payloads of the entries that hold a blip, in order (StoreIdeal of            *)
(*     Pictures.tla on the logical store), None when there is none.                                 *)
(*  "hostile": that stream damaged at random (C06's statement for the drawing group).               *)
EXTENDS Naturals, Sequences, FiniteSets, TLC, Json, IOUtils

Rec == ndJsonDeserialize(IOEnv.TRACE)
VARIABLE l
\* C06 runs this module over the "hostile" events only (ONLY = "hostile"): the others are skipped there
Only == IF "ONLY" \in DOMAIN IOEnv THEN IOEnv.ONLY ELSE ""
Ev == Rec[l]
Init == l = 1
AsSet(s) == {s[k] : k \in 1..Len(s)}
TFixture == /\ l <= Len(Rec) /\ Ev.e = "fixture"
            /\ Ev.kind = "some"
            /\ Len(Ev.pics) = Len(Ev.refs) /\ AsSet(Ev.pics) = AsSet(Ev.refs)
            /\ l' = l + 1
TStore == /\ l <= Len(Rec) /\ Ev.e = "store"
          /\ Ev.kind = (IF Ev.want = <<>> THEN "none" ELSE "some")
          /\ Ev.got = Ev.want
          /\ l' = l + 1
\* the same stream with bytes overwritten / length fields changed / truncated: whatever it is, not a panic
THostile == /\ l <= Len(Rec) /\ Ev.e = "hostile"
            /\ Ev.kind \in {"none", "some", "err"}
            /\ l' = l + 1
TSkip == /\ l <= Len(Rec) /\ Only # "" /\ Ev.e # Only /\ l' = l + 1
Next == IF Only = "" THEN TFixture \/ TStore \/ THostile ELSE THostile \/ TSkip
Spec == Init /\ [][Next]_l
Accepted ==
  LET d == TLCGet("stats").diameter IN
  IF d - 1 = Len(Rec) THEN PrintT(<<"ACCEPTED", ToString(Len(Rec))>>)
  ELSE PrintT(<<"REJECTED", ToJson([at |-> d, event |-> Rec[d]])>>)
=============================================================================
