----------------------------- MODULE MC_Metadata -----------------------------
EXTENDS Metadata, Json
CONSTANTS Formats, NameIds, MaxSheets, MaxNames, DefNames

VARIABLES w, done
Noise(fmt) == CASE fmt = "xlsx" -> [order : {"fwd", "rev"}, relp : {"r", "relationships"}, prefix : {"", "x"}]
                [] fmt = "xls"  -> [high : BOOLEAN]
                \* xlsb: ignorable records around BrtBundleSh whose payload bytes look like record ids
                \* (a BrtBookView window width of 412 = bytes 9C 01, the id of BrtBundleSh)
                [] fmt = "xlsb" -> [alias : {"none", "bookview", "between"}]
                [] OTHER -> {[none |-> TRUE]}

Init == /\ \E f \in Formats : \E d \in BOOLEAN : \E nz \in Noise(f) :
             w = [fmt |-> f, sheets |-> <<>>, names |-> <<>>, d1904 |-> (d /\ f # "ods"), noise |-> nz]
        /\ done = FALSE
AddSheet == /\ ~done /\ Len(w.sheets) < MaxSheets /\ w.names = <<>>
            /\ \E n \in NameIds, v \in VisOf(w.fmt), k \in KindsOf(w.fmt) :
                 /\ \A i \in 1..Len(w.sheets) : w.sheets[i].name # n
                 /\ w' = [w EXCEPT !.sheets = Append(@, [name |-> n, vis |-> v, kind |-> k])]
            /\ UNCHANGED done
\* defined names (text forms; token-encoded names of xls/xlsb belong to the formula model)
AddName == /\ ~done /\ Len(w.names) < MaxNames /\ w.fmt \in {"xlsx", "ods"}
           /\ \E d \in DefNames : (\A i \in 1..Len(w.names) : w.names[i] # d) /\ w' = [w EXCEPT !.names = Append(@, d)]
           /\ UNCHANGED done
End == ~done /\ done' = TRUE /\ UNCHANGED w
Next == AddSheet \/ AddName \/ End
Spec == Init /\ [][Next]_<<w, done>>

Refines == AsIs(w) = Ideal(w)
Dump == done => PrintT(<<"REPLAY", ToJson([w |-> w, ideal |-> Ideal(w)])>>)
=============================================================================
