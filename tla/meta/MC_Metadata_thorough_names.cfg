SPECIFICATION Spec
CONSTANTS
  Formats = {"xlsx", "xlsb", "xls", "ods"}
  NameIds = {"plain", "special", "apos", "cjk", "astral", "blank", "long"}
  MaxSheets = 2
  MaxNames = 2
  DefNames = {"ref", "text", "expr"}
INVARIANTS Refines Dump
CHECK_DEADLOCK FALSE
