SPECIFICATION Spec
CONSTANTS
  Formats = {"xlsx", "xlsb", "xls", "ods"}
  NameIds = {"plain", "cjk", "special"}
  MaxSheets = 3
  MaxNames = 0
  DefNames = {}
INVARIANTS Refines Dump
CHECK_DEADLOCK FALSE
