------------------------------ MODULE Metadata ------------------------------
(***************************************************************************)
(* C16 -- workbook metadata: sheets in workbook order with exact name,     *)
(* visibility and kind; defined names in order; the date-system flag       *)
(* reaching the date cells of every sheet.                                 *)
(*                                                                         *)
(* A workbook descriptor: fmt, sheets : Seq([name, vis, kind]), names :    *)
(* Seq(defined-name id), d1904, and format-specific physical noise         *)
(* (xlsx: attribute order, r:/relationships: prefix, element prefix;       *)
(* xls: 8-bit or 16-bit BoundSheet8 name storage).                         *)
(* name ids stand for strings with the characters the statement lists      *)
(* (XML-special, apostrophe, CJK, astral, surrounding blanks, 31 chars).   *)
(* What a format can express: ods -- visible/hidden only, worksheets only; *)
(* xlsx/xlsb -- kind through the part's folder (worksheets, chartsheets,   *)
(* dialogsheets, macrosheets); xls -- BoundSheet8 dt (worksheet, macro,    *)
(* chart, VBA module) and hsState.                                         *)
(***************************************************************************)
EXTENDS Naturals, Sequences, FiniteSets, TLC

KindsOf(fmt) == CASE fmt = "xlsx" -> {"work", "chart", "dialog", "macro"}
                  [] fmt = "xlsb" -> {"work", "chart", "dialog", "macro"}
                  [] fmt = "xls"  -> {"work", "macro", "chart", "vba"}
                  [] fmt = "ods"  -> {"work"}
VisOf(fmt) == IF fmt = "ods" THEN {0, 1} ELSE {0, 1, 2}

\* IDEAL: exactly the declared list, in order
Ideal(w) == [sheets |-> w.sheets, names |-> w.names, d1904 |-> IF w.fmt = "ods" THEN FALSE ELSE w.d1904]

\* AS-IS readers: read_workbook (xlsx, xlsb), parse_sheet_metadata (xls), parse_content (ods)
\* push one Sheet per declaration, in document order; kind from folder / dt, visibility from
\* state / hsState / style display.
ReadSheet(fmt, s) == [name |-> s.name, vis |-> s.vis, kind |-> s.kind]
AsIs(w) == [sheets |-> [i \in 1..Len(w.sheets) |-> ReadSheet(w.fmt, w.sheets[i])],
            names |-> w.names, d1904 |-> IF w.fmt = "ods" THEN FALSE ELSE w.d1904]
=============================================================================
