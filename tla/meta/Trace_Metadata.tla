---------------------------- MODULE Trace_Metadata ----------------------------
(* code -> spec: random workbooks (up to 12 sheets, random Unicode names, every     *)
(* visibility/kind the format expresses, format-specific noise); what the real      *)
(* reader reports must be exactly the declared metadata (Metadata.tla: Ideal).      *)
EXTENDS Metadata, Json, IOUtils
Rec == ndJsonDeserialize(IOEnv.TRACE)
VARIABLES l
Ev == Rec[l]
Init == l = 1
TWorkbook == /\ l <= Len(Rec) /\ Ev.e = "workbook"
             /\ Ev.reported = Ev.declared
             /\ \A i \in 1..Len(Ev.declared.meta) : Ev.declared.meta[i].kind \in KindsOf(Ev.fmt) /\ Ev.declared.meta[i].vis \in VisOf(Ev.fmt)
             /\ l' = l + 1
Spec == Init /\ [][TWorkbook]_l
Accepted ==
  LET d == TLCGet("stats").diameter IN
  IF d - 1 = Len(Rec) THEN PrintT(<<"ACCEPTED", ToString(Len(Rec))>>)
  ELSE PrintT(<<"REJECTED", ToJson([at |-> d, event |-> Rec[d]])>>)
=============================================================================
