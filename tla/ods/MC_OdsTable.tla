---------------------------- MODULE MC_OdsTable ----------------------------
(***************************************************************************)
(* Writer || reader for C04.  The writer emits one physical element per    *)
(* action (a cell element, or the end of a row with its repeat count); the *)
(* reader consumes it in the same step (one iteration of read_row's /      *)
(* read_table's event loop).  Every complete table is printed as a REPLAY  *)
(* line and materialised into a real .ods by `cvh replay ods`.             *)
(*                                                                         *)
(* Every grouping of a logical grid into repeated elements is some token   *)
(* sequence over the run alphabet below, and Ideal depends on the expanded *)
(* grid only; so  AsIs = Ideal  for all token sequences also says that all *)
(* encodings of one grid read back the same.                               *)
(*                                                                         *)
(* Legality (ODF 1.2 part 1, 9.1.3/9.1.4, schema): a row has >= 1 cell     *)
(* element, repeat counts are positive; a covered cell stands for an empty *)
(* position here.  Rows containing a value are repeated VRowReps times,    *)
(* blank rows ERowReps times (only blank rows get the huge counts real     *)
(* files carry).                                                           *)
(***************************************************************************)
EXTENDS OdsTable, Json

CONSTANTS EReps,      \* number-columns-repeated of an empty table:table-cell
          CovReps,    \* ... of a table:covered-table-cell
          VReps,      \* ... of a cell with a value
          Vals,       \* value ids (indices into ValTable)
          XFlags,     \* {FALSE} or BOOLEAN: write the repeat attribute even when it is 1
          MaxRuns, MaxRows, ERowReps, VRowReps, MaxArea

ValTable == <<
  [vt |-> "float",      lex |-> "1.5",   canon |-> "1.5",   form |-> "attr", fm |-> ""],
  [vt |-> "float",      lex |-> "0",     canon |-> "0",     form |-> "attr", fm |-> ""],
  [vt |-> "percentage", lex |-> "0.25",  canon |-> "0.25",  form |-> "attr", fm |-> ""],
  [vt |-> "currency",   lex |-> "12.5",  canon |-> "12.5",  form |-> "attr", fm |-> ""],
  [vt |-> "string",     lex |-> "ab",    canon |-> "ab",    form |-> "attr", fm |-> ""],
  [vt |-> "string",     lex |-> "cd",    canon |-> "cd",    form |-> "text", fm |-> ""],
  [vt |-> "boolean",    lex |-> "true",  canon |-> "true",  form |-> "attr", fm |-> ""],
  [vt |-> "boolean",    lex |-> "false", canon |-> "false", form |-> "attr", fm |-> ""],
  [vt |-> "date",       lex |-> "2024-02-29", canon |-> "2024-02-29", form |-> "attr", fm |-> ""],
  [vt |-> "date",       lex |-> "2024-02-29T12:30:00", canon |-> "2024-02-29T12:30:00", form |-> "attr", fm |-> ""],
  [vt |-> "time",       lex |-> "PT12H30M00S", canon |-> "PT12H30M00S", form |-> "attr", fm |-> ""],
  [vt |-> "float",      lex |-> "2",     canon |-> "2",     form |-> "attr", fm |-> "of:=1+1"],
  [vt |-> "string",     lex |-> "x<y&z", canon |-> "x<y&z", form |-> "text", fm |-> "of:=IF([.A1]<2;[.A1]&[.B1];0)"],
  [vt |-> "float",      lex |-> "-1E-3", canon |-> "-0.001", form |-> "attr", fm |-> ""]
>>

VARIABLES rows,     \* writer: completed physical rows
          cur,      \* writer: cells of the open row
          done,
          rd,       \* reader: read_row's state [out, pend] for the open row
          rcells    \* reader: `cells` segmented by `cols` (one entry per closed row)
vars == <<rows, cur, done, rd, rcells>>

Xs(n) == IF n = 1 THEN XFlags ELSE {FALSE}
EmptyPC(k, n, x) == [k |-> k, n |-> n, x |-> x, vt |-> "", lex |-> "", canon |-> "",
                     form |-> "", fm |-> ""]
ValPC(v, n, x) == LET e == ValTable[v]
                  IN [k |-> "c", n |-> n, x |-> x, vt |-> e.vt, lex |-> e.lex,
                      canon |-> e.canon, form |-> e.form, fm |-> e.fm]
RunSet == {EmptyPC("c", n, x) : n \in EReps, x \in XFlags}
            \cup {EmptyPC("v", n, x) : n \in CovReps, x \in XFlags}
            \cup {ValPC(v, n, x) : v \in Vals, n \in VReps, x \in XFlags}
Legal(pc) == pc.x \in Xs(pc.n)

Blank(pcs) == \A i \in 1..Len(pcs) : pcs[i].vt = ""

Init == rows = <<>> /\ cur = <<>> /\ done = FALSE /\ rd = RowInit /\ rcells = <<>>

WCell(pc) ==
  /\ ~done /\ Len(rows) < MaxRows /\ Len(cur) < MaxRuns /\ Legal(pc)
  /\ cur' = Append(cur, pc)
  /\ rd' = RowStep(rd, pc)
  /\ UNCHANGED <<rows, done, rcells>>

WRowEnd(rr, rx) ==
  /\ ~done /\ Len(cur) >= 1
  /\ rr \in (IF Blank(cur) THEN ERowReps ELSE VRowReps)
  /\ rx \in Xs(rr)
  /\ rows' = Append(rows, [rr |-> rr, rx |-> rx, cells |-> cur])
  /\ cur' = <<>>
  /\ rcells' = Append(rcells, rd.out)      \* End(table:table-row): pending run dropped
  /\ rd' = RowInit
  /\ UNCHANGED done

WDone ==
  /\ ~done /\ cur = <<>> /\ Len(rows) >= 1
  /\ AreaWithin(IdealV(rows), MaxArea)
  /\ done' = TRUE
  /\ UNCHANGED <<rows, cur, rd, rcells>>

Next == \/ \E pc \in RunSet : WCell(pc)
        \/ \E rr \in ERowReps \cup VRowReps, rx \in BOOLEAN : WRowEnd(rr, rx)
        \/ WDone
Spec == Init /\ [][Next]_vars

--------------------------------------------------------------------------
(* the table:number-columns-repeated cursor: cells materialised + pending = columns written *)
ColsAgree ==
  FoldLeft(LAMBDA a, r : a + r[1], 0, rd.out) + rd.pend
    = FoldLeft(LAMBDA a, pc : a + pc.n, 0, cur)
\* a pending run is never a value
PendingOnlyEmpty == rd.pend > 0 => cur # <<>> /\ cur[Len(cur)].vt = ""
\* the incremental reader and the batch operators used by Trace_OdsTable agree
Incremental == rcells = ReadTable(rows).cells

\* THE property: what the transcribed reader returns is what the statement promises
Refines == done => /\ AsIsV(rows) = IdealV(rows)
                   /\ AsIsF(rows) = IdealF(rows)

Dump == done => PrintT(<<"REPLAY", ToJson([tokens |-> rows,
                                           ideal |-> [v |-> IdealV(rows), f |-> IdealF(rows)],
                                           rd |-> [rows |-> ValRows(rcells),
                                                   reps |-> ReadTable(rows).reps],
                                           dev |-> <<>>])>>)
=============================================================================
