\* the algorithm AS PINNED (before the repair): TLC must refute Refines
SPECIFICATION Spec
CONSTANTS
  FullWidthPad = TRUE
  EReps = {1}
  CovReps = {}
  VReps = {1}
  Vals = {1}
  XFlags = {FALSE}
  MaxRuns = 2
  MaxRows = 3
  ERowReps = {1}
  VRowReps = {1}
  MaxArea = 4194304
INVARIANTS Refines
CHECK_DEADLOCK FALSE
