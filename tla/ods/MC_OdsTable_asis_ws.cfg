\* the reader AS PINNED w.r.t. whitespace-only text nodes: TLC must refute Refines / NoError
SPECIFICATION Spec
CONSTANTS
  FullWidthPad = FALSE
  WsIgnored = FALSE
  EReps = {1}
  CovReps = {}
  VReps = {1}
  Vals = {6}
  XFlags = {FALSE}
  MaxRuns = 2
  MaxRows = 1
  ERowReps = {1}
  VRowReps = {1}
  MaxArea = 4194304
  WsNames = {"nl2"}
  PwNames = {"", "nl"}
INVARIANTS Refines
CHECK_DEADLOCK FALSE
