SPECIFICATION Spec
CONSTANTS
  FullWidthPad = FALSE
  EReps = {1}
  CovReps = {}
  VReps = {1}
  Vals = {1}
  XFlags = {FALSE}
  MaxRuns = 3
  MaxRows = 3
  ERowReps = {1, 2}
  VRowReps = {1, 2}
  MaxArea = 4194304
INVARIANTS ColsAgree PendingOnlyEmpty Incremental Refines Dump
CHECK_DEADLOCK FALSE
