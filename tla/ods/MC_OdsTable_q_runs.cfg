SPECIFICATION Spec
CONSTANTS
  FullWidthPad = FALSE
  WsIgnored = TRUE
  EReps = {1, 2}
  CovReps = {}
  VReps = {1, 2}
  Vals = {1}
  XFlags = {FALSE}
  MaxRuns = 2
  MaxRows = 3
  ERowReps = {1, 2}
  VRowReps = {1}
  MaxArea = 4194304
  WsNames = {}
  PwNames = {""}
INVARIANTS ColsAgree PendingOnlyEmpty NoError Incremental Refines Dump
CHECK_DEADLOCK FALSE
