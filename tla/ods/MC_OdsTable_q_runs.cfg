SPECIFICATION Spec
CONSTANTS
  FullWidthPad = FALSE
  EReps = {1, 2}
  CovReps = {}
  VReps = {1, 2}
  Vals = {1}
  XFlags = {FALSE}
  MaxRuns = 2
  MaxRows = 3
  ERowReps = {1, 2}
  VRowReps = {1}
  MaxArea = 4194304
INVARIANTS ColsAgree PendingOnlyEmpty Incremental Refines Dump
CHECK_DEADLOCK FALSE
