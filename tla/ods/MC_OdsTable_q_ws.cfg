SPECIFICATION Spec
CONSTANTS
  FullWidthPad = FALSE
  WsIgnored = TRUE
  EReps = {1}
  CovReps = {}
  VReps = {1}
  Vals = {1, 6}
  XFlags = {FALSE}
  MaxRuns = 5
  MaxRows = 1
  ERowReps = {1}
  VRowReps = {1}
  MaxArea = 4194304
  WsNames = {"nl2"}
  PwNames = {"", "nl"}
INVARIANTS ColsAgree PendingOnlyEmpty NoError Incremental Refines Dump
CHECK_DEADLOCK FALSE
