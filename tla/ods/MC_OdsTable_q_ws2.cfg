SPECIFICATION Spec
CONSTANTS
  FullWidthPad = FALSE
  WsIgnored = TRUE
  EReps = {1}
  CovReps = {}
  VReps = {1}
  Vals = {6}
  XFlags = {FALSE}
  MaxRuns = 3
  MaxRows = 2
  ERowReps = {1, 2}
  VRowReps = {1}
  MaxArea = 4194304
  WsNames = {"nl2"}
  PwNames = {"", "nl"}
INVARIANTS ColsAgree PendingOnlyEmpty NoError Incremental Refines Dump
CHECK_DEADLOCK FALSE
