SPECIFICATION Spec
CONSTANTS
  FullWidthPad = FALSE
  EReps = {1, 2, 3, 1000}
  CovReps = {1, 2}
  VReps = {1, 2, 3}
  Vals = {1,2,3,4,5,6,7,8,9,10,11,12,13,14}
  XFlags = {FALSE, TRUE}
  MaxRuns = 12
  MaxRows = 12
  ERowReps = {1, 2, 3, 1000, 1048576}
  VRowReps = {1, 2, 3}
  MaxArea = 100000
INVARIANTS ColsAgree PendingOnlyEmpty Incremental Refines Dump
CHECK_DEADLOCK FALSE
