SPECIFICATION Spec
CONSTANTS
  FullWidthPad = FALSE
  EReps = {1, 16384}
  CovReps = {}
  VReps = {1}
  Vals = {1}
  XFlags = {FALSE}
  MaxRuns = 2
  MaxRows = 3
  ERowReps = {1, 1000, 1048576}
  VRowReps = {1, 2}
  MaxArea = 4194304
INVARIANTS ColsAgree PendingOnlyEmpty Incremental Refines Dump
CHECK_DEADLOCK FALSE
