SPECIFICATION Spec
CONSTANTS
  FullWidthPad = FALSE
  EReps = {1, 1000}
  CovReps = {3}
  VReps = {1, 3}
  Vals = {1, 6}
  XFlags = {FALSE}
  MaxRuns = 3
  MaxRows = 2
  ERowReps = {1, 2}
  VRowReps = {1, 3}
  MaxArea = 4194304
INVARIANTS ColsAgree PendingOnlyEmpty Incremental Refines Dump
CHECK_DEADLOCK FALSE
