SPECIFICATION Spec
CONSTANTS
  FullWidthPad = FALSE
  EReps = {1, 2, 1000}
  CovReps = {1000}
  VReps = {1}
  Vals = {1}
  XFlags = {FALSE}
  MaxRuns = 2
  MaxRows = 3
  ERowReps = {1, 3, 1000}
  VRowReps = {1, 3}
  MaxArea = 70000
INVARIANTS ColsAgree PendingOnlyEmpty Incremental Refines Dump
CHECK_DEADLOCK FALSE
