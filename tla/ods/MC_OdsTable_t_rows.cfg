SPECIFICATION Spec
CONSTANTS
  FullWidthPad = FALSE
  WsIgnored = TRUE
  EReps = {1}
  CovReps = {}
  VReps = {1}
  Vals = {1}
  XFlags = {FALSE}
  MaxRuns = 4
  MaxRows = 3
  ERowReps = {1, 2}
  VRowReps = {1, 2}
  MaxArea = 4194304
  WsNames = {}
  PwNames = {""}
INVARIANTS ColsAgree PendingOnlyEmpty NoError Incremental Refines Dump
CHECK_DEADLOCK FALSE
