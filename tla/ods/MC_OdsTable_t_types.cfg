SPECIFICATION Spec
CONSTANTS
  FullWidthPad = FALSE
  EReps = {1}
  CovReps = {1, 2}
  VReps = {1, 2}
  Vals = {1,2,3,4,5,6,7,8,9,10,11,12,13,14}
  XFlags = {FALSE, TRUE}
  MaxRuns = 3
  MaxRows = 1
  ERowReps = {1}
  VRowReps = {1, 2}
  MaxArea = 4194304
INVARIANTS ColsAgree PendingOnlyEmpty Incremental Refines Dump
CHECK_DEADLOCK FALSE
