SPECIFICATION Spec
CONSTANTS
  FullWidthPad = FALSE
  WsIgnored = TRUE
  EReps = {1, 2}
  CovReps = {}
  VReps = {1}
  Vals = {1, 6}
  XFlags = {FALSE}
  MaxRuns = 3
  MaxRows = 2
  ERowReps = {1, 2}
  VRowReps = {1}
  MaxArea = 4194304
  WsNames = {"crlf"}
  PwNames = {"", "nl2", "tab"}
INVARIANTS ColsAgree PendingOnlyEmpty NoError Incremental Refines Dump
CHECK_DEADLOCK FALSE
