------------------------------ MODULE MC_OdsText ------------------------------
EXTENDS OdsText, Json
CONSTANTS ClassSet, MaxChars
VARIABLES chars, store, annot, done
vars == <<chars, store, annot, done>>

CharSet == UNION {{[c |-> c, e |-> e] : e \in TextForms(c)} : c \in ClassSet}
Init == chars = <<>> /\ store \in {"elem", "attr"} /\ annot \in BOOLEAN /\ done = FALSE
Add(ch) == ~done /\ Len(chars) < MaxChars /\ chars' = Append(chars, ch) /\ UNCHANGED <<store, annot, done>>
End == /\ ~done /\ chars # <<>> /\ Legal(chars)
       /\ (store = "attr" => ~annot)
       /\ done' = TRUE /\ UNCHANGED <<chars, store, annot>>
Next == (\E ch \in CharSet : Add(ch)) \/ End
Spec == Init /\ [][Next]_vars
Refines == done => (IF store = "attr" THEN ReadAttr(chars) ELSE ReadElem(chars)) = IdealText(chars)
Dump == done => PrintT(<<"REPLAY", ToJson([chars |-> chars, store |-> store, annot |-> annot, ideal |-> IdealText(chars)])>>)
=============================================================================
