SPECIFICATION Spec
CONSTANTS
  ClassSet = {"a", "amp", "lt", "quot", "cjk", "astral", "sp", "tab", "nl"}
  MaxChars = 4
INVARIANTS Refines Dump
CHECK_DEADLOCK FALSE
