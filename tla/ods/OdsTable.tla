------------------------------ MODULE OdsTable ------------------------------
(***************************************************************************)
(* C04 -- ODS: cells read back at their position; repeat counts expand     *)
(* faithfully.                                                             *)
(*                                                                         *)
(* A table is a sequence of PHYSICAL rows (one per table:table-row         *)
(* element)  [rr, rx, cells]  whose cells are PHYSICAL cell elements       *)
(*   [k, n, x, vt, lex, canon, form, fm]                                   *)
(*   k  "c" table:table-cell | "v" table:covered-table-cell                *)
(*   n  table:number-columns-repeated (x: written even when n = 1)         *)
(*   vt office:value-type ("" = none: an empty cell), lex the lexical      *)
(*   value, canon the logical value it denotes, form "attr"/"text" (where  *)
(*   a string lives), fm table:formula ("" = none).                        *)
(*                                                                         *)
(*  Ideal*   : what the property statement promises -- expand every run,   *)
(*             type per the statement, tight bounding box.  Never looks    *)
(*             at the reader.                                              *)
(*  ReadRow / ReadTable / GetRange : transcription of src/ods.rs           *)
(*             (read_row with the pending empty_col_repeats, read_table's  *)
(*             cells/cols/rows_repeats, get_range's two passes).           *)
(*  The Vec<T> `cells` is modelled run-length compressed (sequences of     *)
(*  <<n, x>>, x = Def standing for T::default()), segmented by `cols`, so    *)
(*  that real magnitudes (16384 columns, 1048576 rows) cost nothing.       *)
(*                                                                         *)
(* FullWidthPad = TRUE  is the algorithm as pinned (an interior blank row  *)
(*   is padded with col_max+1 cells): refuted by TLC, see                  *)
(*   MC_OdsTable_asis.cfg.  FALSE is the code after the repair             *)
(*   (`&empty_cells[col_min..]`), which every other configuration uses.    *)
(*                                                                         *)
(* Not asserted (outside the checked language): string cells with empty    *)
(* text (the statement does not say whether "" is a non-empty cell),       *)
(* formula cells without a cached value, content inside covered cells,     *)
(* sub-tables, tables whose bounding rectangle exceeds MaxArea cells       *)
(* (the reader materialises the dense rectangle; a resource question).     *)
(***************************************************************************)
EXTENDS Naturals, Sequences, FiniteSets, TLC, SequencesExt

CONSTANT FullWidthPad

Inf == 2147483647
Def == <<>>        \* T::default() (Data::Empty, the empty formula string)

--------------------------------------------------------------------------
(* typing: the statement's side and the code's side are kept apart *)

\* statement: "float, percentage and currency as Float, string, boolean,
\* date as DateTimeIso, time as DurationIso"
IdealTag(vt) ==
  CASE vt \in {"float", "percentage", "currency"} -> "f"
    [] vt = "string"  -> "s"
    [] vt = "boolean" -> "b"
    [] vt = "date"    -> "iso"
    [] vt = "time"    -> "dur"

\* ODF 1.2 19.385: which attribute carries the value of a cell of that type
ValAttr(pc) ==
  CASE pc.vt \in {"float", "percentage", "currency"} -> "office:value"
    [] pc.vt = "string" /\ pc.form = "attr" -> "office:string-value"
    [] pc.vt = "string"  -> ""
    [] pc.vt = "boolean" -> "office:boolean-value"
    [] pc.vt = "date"    -> "office:date-value"
    [] pc.vt = "time"    -> "office:time-value"
    [] OTHER -> ""

\* get_datatype: the variant is chosen by the value attribute that is present;
\* without one, value-type "string" takes the text content
ReadTag(attr, vt) ==
  CASE attr = "office:value"         -> "f"
    [] attr = "office:string-value"  -> "s"
    [] attr = "office:date-value"    -> "iso"
    [] attr = "office:time-value"    -> "dur"
    [] attr = "office:boolean-value" -> "b"
    [] attr = "" /\ vt = "string"    -> "s"
    [] OTHER -> "_"

IdealVal(pc) == IF pc.vt = "" THEN Def ELSE <<IdealTag(pc.vt), pc.canon>>
IdealFm(pc)  == IF pc.fm = "" THEN Def ELSE <<pc.fm>>

CellVal(pc) == IF pc.vt = "" THEN Def
               ELSE LET t == ReadTag(ValAttr(pc), pc.vt)
                    IN IF t = "_" THEN Def ELSE <<t, pc.canon>>
CellFm(pc)  == IF pc.fm = "" THEN Def ELSE <<pc.fm>>

--------------------------------------------------------------------------
(* IDEAL: expand every run; positions are absolute *)

\* cells of one instance of a physical row: sequence of <<col, x>>
IdealRowCells(pcs, Sel(_)) ==
  FoldLeft(LAMBDA a, pc :
             [c |-> a.c + pc.n,
              out |-> IF Sel(pc) = Def THEN a.out
                      ELSE a.out \o [j \in 1..pc.n |-> <<a.c + j - 1, Sel(pc)>>]],
           [c |-> 0, out |-> <<>>], pcs).out

\* all non-default cells <<row, col, x>> in row-major order
IdealCells(rows, Sel(_)) ==
  FoldLeft(LAMBDA a, row :
             LET rc == IdealRowCells(row.cells, Sel)
             IN [r |-> a.r + row.rr,
                 out |-> IF rc = <<>> THEN a.out
                         ELSE a.out \o
                              [m \in 1..(row.rr * Len(rc)) |->
                                 LET k == (m - 1) \div Len(rc)
                                     j == ((m - 1) % Len(rc)) + 1
                                 IN <<a.r + k, rc[j][1], rc[j][2]>>]],
           [r |-> 0, out |-> <<>>], rows).out

SMin(S) == CHOOSE x \in S : \A y \in S : x <= y
SMax(S) == CHOOSE x \in S : \A y \in S : x >= y

RangeOfCells(cs) ==
  IF cs = <<>> THEN [start |-> <<>>, end |-> <<>>, cells |-> <<>>, shape |-> TRUE]
  ELSE LET rs == {cs[i][1] : i \in 1..Len(cs)}
           ks == {cs[i][2] : i \in 1..Len(cs)}
       IN [start |-> <<SMin(rs), SMin(ks)>>, end |-> <<SMax(rs), SMax(ks)>>,
           cells |-> cs, shape |-> TRUE]

IdealRange(rows, Sel(_)) == RangeOfCells(IdealCells(rows, Sel))
IdealV(rows) == IdealRange(rows, IdealVal)
IdealF(rows) == IdealRange(rows, IdealFm)

\* number of cells of the bounding rectangle <= max (no 32-bit overflow)
AreaWithin(rg, max) ==
  IF rg.cells = <<>> THEN TRUE
  ELSE LET h == rg.end[1] - rg.start[1] + 1
           w == rg.end[2] - rg.start[2] + 1
       IN h <= max \div w

--------------------------------------------------------------------------
(* run-length compressed slices of the Vec `cells`: Seq(<<n, x>>), n >= 1 *)

RLen(r) == FoldLeft(LAMBDA a, run : a + run[1], 0, r)
RAllDefault(r) == \A i \in 1..Len(r) : r[i][2] = Def        \* is_empty_row

\* row.iter().position(|c| c != default) -- 0-based; caller guarantees existence
RPos(r) ==
  LET k == CHOOSE i \in 1..Len(r) : r[i][2] # Def /\ \A j \in 1..(i - 1) : r[j][2] = Def
  IN RLen(SubSeq(r, 1, k - 1))
\* row.iter().rposition(..)
RRPos(r) ==
  LET k == CHOOSE i \in 1..Len(r) : r[i][2] # Def /\ \A j \in (i + 1)..Len(r) : r[j][2] = Def
  IN RLen(SubSeq(r, 1, k)) - 1

\* &r[a..]   (Rust panics when a > len)
RFrom(r, a) ==
  IF ~Assert(a <= RLen(r), "slice start beyond len") THEN <<>> ELSE
  FoldLeft(LAMBDA acc, run :
             IF acc.skip >= run[1] THEN [skip |-> acc.skip - run[1], out |-> acc.out]
             ELSE [skip |-> 0, out |-> Append(acc.out, <<run[1] - acc.skip, run[2]>>)],
           [skip |-> a, out |-> <<>>], r).out
\* &r[..b]
RTo(r, b) ==
  IF ~Assert(b <= RLen(r), "slice end beyond len") THEN <<>> ELSE
  FoldLeft(LAMBDA acc, run :
             IF acc.left = 0 THEN acc
             ELSE IF acc.left >= run[1] THEN [left |-> acc.left - run[1], out |-> Append(acc.out, run)]
             ELSE [left |-> 0, out |-> Append(acc.out, <<acc.left, run[2]>>)],
           [left |-> b, out |-> <<>>], r).out
\* &r[a..b]
RSlice(r, a, b) == RFrom(RTo(r, b), a)

--------------------------------------------------------------------------
(* READER: src/ods.rs *)

\* read_row, one loop iteration: st = [out : Seq(<<n, val, fm>>), pend : Nat]
\*   for _ in 0..empty_col_repeats { push Empty }  -- before looking at the new value
\*   empty value and empty formula -> only remember `repeats`
RowStep(st, pc) ==
  LET val == CellVal(pc)
      fm  == CellFm(pc)
      flushed == IF st.pend > 0 THEN Append(st.out, <<st.pend, Def, Def>>) ELSE st.out
  IN IF val = Def /\ fm = Def
     THEN [out |-> flushed, pend |-> pc.n]
     ELSE [out |-> Append(flushed, <<pc.n, val, fm>>), pend |-> 0]

RowInit == [out |-> <<>>, pend |-> 0]
\* End(table:table-row): the pending run is dropped
ReadRow(pcs) == FoldLeft(RowStep, RowInit, pcs).out

\* read_table: `cells` (segmented by `cols`) and rows_repeats
ReadTable(rows) == [cells |-> [i \in 1..Len(rows) |-> ReadRow(rows[i].cells)],
                    reps  |-> [i \in 1..Len(rows) |-> rows[i].rr]]
\* the offsets the code keeps in `cols`
Cols(cells) == FoldLeft(LAMBDA a, row : Append(a, a[Len(a)] + RLen(row)), <<0>>,
                        [i \in 1..Len(cells) |-> [j \in 1..Len(cells[i]) |-> <<cells[i][j][1], Def>>]])

ValRows(cells) == [i \in 1..Len(cells) |-> [j \in 1..Len(cells[i]) |-> <<cells[i][j][1], cells[i][j][2]>>]]
FmRows(cells)  == [i \in 1..Len(cells) |-> [j \in 1..Len(cells[i]) |-> <<cells[i][j][1], cells[i][j][3]>>]]

SumFirst(s, k) == FoldLeft(LAMBDA a, x : a + x, 0, SubSeq(s, 1, k))

\* get_range(cells, cols, rows_repeats); rws[i] = &cells[cols[i-1]..cols[i]]
GetRange(rws, reps) ==
  LET N == Len(rws)
      \* pass 1: smallest area with non empty cells (i is the 0-based physical row index)
      p1 == FoldLeft(LAMBDA a, idx :
                LET row == rws[idx]  i == idx - 1 IN
                IF RAllDefault(row) THEN a
                ELSE LET p == RPos(row)  q == RRPos(row) IN
                     [has |-> TRUE,
                      row_min |-> IF a.has THEN a.row_min ELSE i,
                      fer |-> IF a.has THEN a.fer ELSE SumFirst(reps, i) - i,
                      row_max |-> i,
                      col_min |-> IF p < a.col_min THEN p ELSE a.col_min,
                      col_max |-> IF q > a.col_max THEN q ELSE a.col_max],
              [has |-> FALSE, row_min |-> 0, fer |-> 0, row_max |-> 0, col_min |-> Inf, col_max |-> 0],
              [idx \in 1..N |-> idx])
  IN IF ~p1.has THEN [empty |-> TRUE]
     ELSE
     LET row_min == p1.row_min  col_min == p1.col_min  col_max == p1.col_max
         \* empty_cells = vec![default; col_max + 1];  the slice pushed for a blank row
         padw == IF FullWidthPad THEN col_max + 1 ELSE col_max + 1 - col_min
         \* .skip(row_min).take(row_max + 1)  -- may run past the last non-empty row
         last == IF N < row_min + p1.row_max + 1 THEN N ELSE row_min + p1.row_max + 1
         p2 == FoldLeft(LAMBDA a, idx :
                 LET row == rws[idx]  rep == reps[idx] IN
                 IF RAllDefault(row)
                 THEN [a EXCEPT !.err = @ + rep, !.cer = @ + 1]
                 ELSE
                 LET b == IF a.err > 0
                          THEN [new |-> Append(a.new, << <<a.err * padw, Def>> >>),
                                row_max |-> a.row_max + a.err - a.cer, err |-> 0, cer |-> 0]
                          ELSE a
                     rm == IF rep > 1 THEN b.row_max + rep - 1 ELSE b.row_max
                     len == RLen(row)
                     piece == IF len < col_max + 1
                              THEN RFrom(row, col_min) \o << <<col_max + 1 - len, Def>> >>
                              ELSE IF len = col_max + 1 THEN RFrom(row, col_min)
                              ELSE RSlice(row, col_min, col_max + 1)
                 IN [new |-> b.new \o [k \in 1..rep |-> piece], row_max |-> rm,
                     err |-> b.err, cer |-> b.cer],
               [new |-> <<>>, row_max |-> p1.row_max, err |-> 0, cer |-> 0],
               [k \in 1..(last - row_min) |-> row_min + k])
     IN [empty |-> FALSE,
         start |-> <<row_min + p1.fer, col_min>>,
         end   |-> <<p2.row_max + p1.fer, col_max>>,
         inner |-> p2.new]                      \* Seq of chunks, each a run sequence

\* what the public API shows of Range{start,end,inner}: start()/end(), rows() =
\* inner.chunks(width) -> absolute positions of the non-default cells, and whether
\* rows()/get_size() are consistent (inner.len() = height * width)
ProjRange(rg) ==
  IF rg.empty THEN [start |-> <<>>, end |-> <<>>, cells |-> <<>>, shape |-> TRUE]
  ELSE
  LET w == rg.end[2] - rg.start[2] + 1
      h == rg.end[1] - rg.start[1] + 1
      flat == FoldLeft(LAMBDA a, c : a \o c, <<>>, rg.inner)
      f == FoldLeft(LAMBDA a, run :
             [off |-> a.off + run[1],
              out |-> IF run[2] = Def THEN a.out
                      ELSE a.out \o [j \in 1..run[1] |->
                             <<rg.start[1] + ((a.off + j - 1) \div w),
                               rg.start[2] + ((a.off + j - 1) % w), run[2]>>]],
             [off |-> 0, out |-> <<>>], flat)
  IN [start |-> rg.start, end |-> rg.end, cells |-> f.out,
      shape |-> (h <= Inf \div w /\ f.off = h * w)]

AsIsV(rows) == LET t == ReadTable(rows) IN ProjRange(GetRange(ValRows(t.cells), t.reps))
AsIsF(rows) == LET t == ReadTable(rows) IN ProjRange(GetRange(FmRows(t.cells), t.reps))
=============================================================================
