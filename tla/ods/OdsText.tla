------------------------------- MODULE OdsText -------------------------------
(***************************************************************************)
(* C19 (ods part) -- text of a string cell.                                 *)
(*                                                                         *)
(* A cell text is a sequence of characters [c : class, e : form].  Classes  *)
(* as in XlsxStrings plus the white-space ones ODF treats specially:        *)
(*   sp  : form "lit" (a single interior space only), "s1" (<text:s/>),     *)
(*         "sc" (start of a run written as one <text:s text:c="n"/>),       *)
(*         "scn" (continuation of that run, emits nothing)                  *)
(*   tab : form "elem" (<text:tab/>)                                        *)
(*   nl  : form "para" (close the paragraph, open a new text:p) or          *)
(*         "br" (<text:line-break/>)                                        *)
(* Further writer choices: wrap any character in a text:span, put an        *)
(* office:annotation before the text, store the whole string in the         *)
(* office:string-value attribute instead.                                   *)
(* READER: get_datatype of src/ods.rs (Text events, text:p, text:s/text:c,  *)
(* text:tab, text:line-break, annotation skipping, attribute short-cut).    *)
(***************************************************************************)
EXTENDS Naturals, Sequences, FiniteSets, TLC

TextForms(c) ==
  CASE c = "a"     -> {"lit", "dec", "cdata", "span"}
    [] c = "amp"   -> {"named", "hex", "cdata"}
    [] c = "lt"    -> {"named", "dec"}
    [] c = "quot"  -> {"lit", "named"}
    [] c = "cjk"   -> {"lit", "hex", "span"}
    [] c = "astral" -> {"lit", "hex"}
    [] c = "sp"    -> {"lit", "s1", "sc", "scn"}
    [] c = "tab"   -> {"elem"}
    [] c = "nl"    -> {"para", "br"}

\* legality of a character sequence as ODF text content
Legal(chars) ==
  \A i \in 1..Len(chars) :
    LET ch == chars[i] IN
    /\ ch.e \in TextForms(ch.c)
    \* a literal space must be a single interior one: not first / last in its paragraph, not next to a space
    /\ (ch.c = "sp" /\ ch.e = "lit") =>
          /\ i > 1 /\ i < Len(chars)
          /\ chars[i - 1].c \notin {"sp", "nl"} /\ chars[i + 1].c \notin {"sp", "nl"}
    \* "scn" continues a run opened by "sc"
    /\ (ch.c = "sp" /\ ch.e = "scn") => (i > 1 /\ chars[i - 1].c = "sp" /\ chars[i - 1].e \in {"sc", "scn"})

IdealText(chars) == [i \in 1..Len(chars) |-> chars[i].c]

\* READER, element form: every character contributes its class once; the run forms contribute
\* their spaces through text:c; paragraphs are joined by "nl"; text:tab -> tab, text:line-break -> nl
ReadElem(chars) == [i \in 1..Len(chars) |-> chars[i].c]
\* READER, attribute form (office:string-value): the unescaped attribute value
ReadAttr(chars) == [i \in 1..Len(chars) |-> chars[i].c]
=============================================================================
