SPECIFICATION Spec
CONSTANTS
  FullWidthPad = FALSE
  WsIgnored = TRUE
INVARIANTS Refines
POSTCONDITION Accepted
CHECK_DEADLOCK FALSE
