SPECIFICATION Spec
CONSTANTS
  FullWidthPad = FALSE
INVARIANTS Refines
POSTCONDITION Accepted
CHECK_DEADLOCK FALSE
