--------------------------- MODULE Trace_OdsTable ---------------------------
(* code -> spec: `cvh drive ods` writes random large physical tables into    *)
(* real .ods files, reads them with calamine::Ods and logs, per table, the   *)
(* token list and what worksheet_range / worksheet_formula returned.  The    *)
(* log is accepted iff, for every table, the reader model of OdsTable.tla    *)
(* (read_row / read_table / get_range on the logged tokens) reproduces the   *)
(* observed ranges exactly; the property (AsIs = Ideal) is evaluated as an   *)
(* invariant in every state of the observed execution.                       *)
EXTENDS OdsTable, Json, IOUtils

Rec == ndJsonDeserialize(IOEnv.TRACE)

VARIABLES l, refines
vars == <<l, refines>>

Init == l = 1 /\ refines = TRUE

Ev == Rec[l]

\* floats are logged by the driver as the shortest round-trip numeral of the value read,
\* and `canon` of a numeric token is that numeral of the value written
TTable ==
  /\ l <= Len(Rec) /\ Ev.e = "table"
  /\ "error" \notin DOMAIN Ev
  /\ LET av == AsIsV(Ev.tokens, Ev.pw)  af == AsIsF(Ev.tokens, Ev.pw) IN
       /\ Ev.v = av
       /\ Ev.f = af
       /\ refines' = (av = IdealV(Ev.tokens) /\ af = IdealF(Ev.tokens))
  /\ l' = l + 1

Next == TTable
Spec == Init /\ [][Next]_vars

Refines == refines

Accepted ==
  LET d == TLCGet("stats").diameter IN
  IF d - 1 = Len(Rec) THEN PrintT(<<"ACCEPTED", ToString(Len(Rec))>>)
  ELSE PrintT(<<"REJECTED", ToJson([at |-> d, run |-> IF "run" \in DOMAIN Rec[d] THEN Rec[d].run ELSE 0])>>)
=============================================================================
