----------------------------- MODULE CursorInd -----------------------------
(* X05, unbounded complement to MC_RangeViews: the double-ended cursor of rows() / cells() over a view of   *)
(* ANY length N (a constant Apalache leaves symbolic).  `lo`, `hi` are the transcribed window [lo, hi) of  *)
(* src/lib.rs (slice::Chunks / Enumerate), `f`, `b` count the items the ideal view has given from the      *)
(* front and from the back, `last` is the index the last call yielded (-1: None) and `ok` records that      *)
(* every call so far yielded the ideal item: index f from the front, N - 1 - b from the back, None exactly  *)
(* when f + b = N.  IndInv is inductive (Init => IndInv, IndInv /\ Next => IndInv'), so it holds in every   *)
(* reachable state for every N: a cursor never yields an item twice, front and back never cross, an         *)
(* exhausted cursor stays exhausted, and size_hint = hi - lo is exactly what is left.                       *)
EXTENDS Integers

CONSTANT
  \* @type: Int;
  N

VARIABLES
  \* @type: Int;
  lo,
  \* @type: Int;
  hi,
  \* @type: Int;
  f,
  \* @type: Int;
  b,
  \* @type: Int;
  last,
  \* @type: Bool;
  ok

ConstInit == N \in Nat

Init == lo = 0 /\ hi = N /\ f = 0 /\ b = 0 /\ last = -1 /\ ok = TRUE

IdealFront == IF f + b < N THEN f ELSE -1
IdealBack  == IF f + b < N THEN N - 1 - b ELSE -1

NextF == /\ IF lo < hi THEN last' = lo /\ lo' = lo + 1 ELSE last' = -1 /\ lo' = lo
         /\ f' = IF f + b < N THEN f + 1 ELSE f
         /\ ok' = (ok /\ last' = IdealFront)
         /\ UNCHANGED <<hi, b>>
NextB == /\ IF lo < hi THEN last' = hi - 1 /\ hi' = hi - 1 ELSE last' = -1 /\ hi' = hi
         /\ b' = IF f + b < N THEN b + 1 ELSE b
         /\ ok' = (ok /\ last' = IdealBack)
         /\ UNCHANGED <<lo, f>>
Next == NextF \/ NextB

IndInv == /\ 0 <= lo /\ lo <= hi /\ hi <= N
          /\ f = lo /\ b = N - hi
          /\ last >= -1 /\ last < N
          /\ ok
\* an arbitrary state satisfying IndInv (Apalache needs every variable assigned by the initial predicate)
IndInit == /\ lo \in Int /\ hi \in Int /\ f \in Int /\ b \in Int /\ last \in Int /\ ok \in BOOLEAN
           /\ IndInv
\* what the listed laws say, as consequences of IndInv
Hint == hi - lo = N - f - b
OnceEach == f + b <= N
Safety == IndInv /\ Hint /\ OnceEach
=============================================================================
