------------------------------ MODULE MC_Range ------------------------------
(* Bounded exploration of RangeSpec: every transition of the abstract state *)
(* graph is printed once ("STEP" lines) with the BFS-shortest operation      *)
(* prefix that reaches its source state; the harness steps the real          *)
(* calamine::Range through prefix+act and compares the projection.           *)
EXTENDS RangeSpec, Json

CONSTANTS RowSet, ColSet, ValSet, MaxSparse, MaxOps

VARIABLES abs, con, sub, csub, pan, dev, hist
vars == <<abs, con, sub, csub, pan, dev, hist>>
view == <<abs, con, sub, csub, pan, dev, hist = <<>>>>   \* hist is observation only, except that "no operation yet" differs from "emptied"

PosSet == RowSet \X ColSet
Corners == {ab \in PosSet \X PosSet : LeqP(ab[1], ab[2])}
CellSet == [p : PosSet, v : ValSet]

\* row-sorted sequences of <= MaxSparse cells at pairwise distinct positions,
\* columns in any order
SparseSeqs ==
  UNION {{cs \in [1..n -> CellSet] :
             /\ \A i \in 1..(n - 1) : cs[i].p[1] <= cs[i + 1].p[1]
             /\ \A i, j \in 1..n : i # j => cs[i].p # cs[j].p} : n \in 0..MaxSparse}

NoSub == [none |-> TRUE]

Init == /\ abs = AEmpty /\ con = CEmpty /\ sub = NoSub /\ csub = NoSub
        /\ pan = "" /\ dev = {} /\ hist = <<>>

Fresh == hist = <<>>
Alive == pan = "" /\ Len(hist) < MaxOps

DoNew(a, b) ==
  /\ Fresh
  /\ abs' = ANew(a, b) /\ con' = CNew(a, b)
  /\ hist' = Append(hist, [op |-> "new", a |-> a, b |-> b])
  /\ UNCHANGED <<sub, csub, pan, dev>>

DoEmpty ==
  /\ Fresh
  /\ abs' = AEmpty /\ con' = CEmpty
  /\ hist' = Append(hist, [op |-> "empty"])
  /\ UNCHANGED <<sub, csub, pan, dev>>

DoSparse(cs) ==
  /\ Fresh
  /\ abs' = ASparse(cs) /\ con' = CSparse(cs)
  /\ hist' = Append(hist, [op |-> "sparse", cells |-> cs])
  /\ UNCHANGED <<sub, csub, pan, dev>>

\* documented precondition: position at or beyond the start corner.  An empty range
\* has no start corner (start() = None): set_value on it is outside the checked
\* language (the statement does not say what it should do; the code panics).
DoSet(p, v) ==
  /\ ~Fresh /\ Alive
  /\ ~abs.empty /\ LeqP(abs.s, p)
  /\ LET r == CSet(con, p, v)
     IN con' = r.c /\ pan' = r.pan /\ dev' = dev
  /\ abs' = ASet(abs, p, v)
  /\ hist' = Append(hist, [op |-> "set", p |-> p, v |-> v])
  /\ UNCHANGED <<sub, csub>>

\* r.range(a,b): result kept in the sub registers, receiver unchanged
DoSub(a, b) ==
  /\ ~Fresh /\ Alive
  /\ LET r == CRange(con, a, b)
     IN /\ csub' = r.c /\ pan' = r.pan
        /\ dev' = dev
  /\ sub' = ASub(abs, a, b)
  /\ hist' = Append(hist, [op |-> "sub", a |-> a, b |-> b])
  /\ UNCHANGED <<abs, con>>

\* r = r.range(a,b)
DoAdopt(a, b) ==
  /\ ~Fresh /\ Alive
  /\ LET r == CRange(con, a, b)
     IN /\ con' = r.c /\ pan' = r.pan
        /\ dev' = dev
  /\ abs' = ASub(abs, a, b)
  /\ hist' = Append(hist, [op |-> "adopt", a |-> a, b |-> b])
  /\ sub' = NoSub /\ csub' = NoSub

Next ==
  \/ \E ab \in Corners : DoNew(ab[1], ab[2])
  \/ DoEmpty
  \/ \E cs \in SparseSeqs : DoSparse(cs)
  \/ \E p \in PosSet, v \in ValSet : DoSet(p, v)
  \/ \E ab \in Corners : DoSub(ab[1], ab[2])
  \/ \E ab \in Corners : DoAdopt(ab[1], ab[2])

Spec == Init /\ [][Next]_vars

--------------------------------------------------------------------------
(* properties *)
PS(x) == IF x = NoSub THEN [none |-> TRUE] ELSE ProjAbs(x)
PC(x) == IF x = NoSub THEN [none |-> TRUE] ELSE ProjCon(x)

\* the transcribed algorithm has the property outside the named deviations
Refines == dev = {} => /\ pan = ""
                       /\ ProjCon(con) = ProjAbs(abs)
                       /\ PC(csub) = PS(sub)
IsRect == pan = "" => Rectangular(con) /\ (csub # NoSub => Rectangular(csub))
\* accessors agree with the ideal cell map
Accessors == (dev = {} /\ ~abs.empty) =>
   \A p \in PosSet : CGetValue(con, p) = (IF p \in Rect(abs.s, abs.e) THEN abs.cell[p] ELSE "none")
\* a deviation is only ever a panic on an empty receiver
DevIsPanic == dev # {} => pan # ""

\* set_value changes exactly the addressed cell (action property on abs)
OnlyAddressed ==
  [][(hist' # hist /\ hist'[Len(hist')].op = "set") =>
       LET p == hist'[Len(hist')].p
       IN \A q \in Rect(abs'.s, abs'.e) : q # p => abs'.cell[q] = AGet(abs, q)]_vars

Step == PrintT(<<"STEP", ToJson([prefix |-> hist, act |-> hist'[Len(hist')],
                                 ideal |-> [main |-> ProjAbs(abs'), sub |-> PS(sub')],
                                 asis  |-> IF pan' # "" THEN [panic |-> pan']
                                           ELSE [main |-> ProjCon(con'), sub |-> PC(csub')],
                                 dev |-> dev'])>>)
=============================================================================
