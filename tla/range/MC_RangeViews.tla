--------------------------- MODULE MC_RangeViews ---------------------------
(* X05, legs 0 and 1: every range up to MaxH x MaxW over the value codes Vals (and the empty     *)
(* range), every view, every interleaving of next / next_back / size_hint up to MaxOps calls.     *)
(* TLC checks that the transcribed cursors agree with the ideal views call by call (Refines),     *)
(* that an exhausted cursor stays exhausted (Fused), that the hint brackets what is left (Hint);  *)
(* every complete behaviour is exported and played on a real Range<Data> (harness range_views).  *)
EXTENDS RangeViews, Json

CONSTANTS MaxH, MaxW, Vals, MaxOps, Starts, Kinds

VARIABLES rng, kind, f, b, cur, ops, dead
vars == <<rng, kind, f, b, cur, ops, dead>>

StartsBoth == {<<0, 0>>, <<2, 1>>}
Ranges == {REmpty} \cup UNION {UNION {{[empty |-> FALSE, s |-> s, h |-> h, w |-> w, cell |-> c] :
                                          c \in [1..(h * w) -> Vals], s \in Starts} : w \in 1..MaxW} : h \in 1..MaxH}

Init == /\ rng \in Ranges /\ kind \in Kinds
        /\ f = 0 /\ b = 0 /\ cur = C0(rng, kind) /\ ops = <<>> /\ dead = FALSE

Log(op, ret) == ops' = Append(ops, [op |-> op, ret |-> ret])
DoNext == /\ Len(ops) < MaxOps
          /\ LET x == CNext(rng, kind, cur) IN
               /\ cur' = x.c /\ Log("next", x.ret)
               /\ f' = IF IdealNext(rng, kind, f, b) # None THEN f + 1 ELSE f
               /\ dead' = (dead \/ x.ret = None)
          /\ UNCHANGED <<rng, kind, b>>
DoBack == /\ Len(ops) < MaxOps
          /\ LET x == CBack(rng, kind, cur) IN
               /\ cur' = x.c /\ Log("back", x.ret)
               /\ b' = IF IdealBack(rng, kind, f, b) # None THEN b + 1 ELSE b
               /\ dead' = (dead \/ x.ret = None)
          /\ UNCHANGED <<rng, kind, f>>
DoHint == /\ Len(ops) < MaxOps
          /\ ops # <<>> => ops[Len(ops)].op # "hint"          \* (two hints in a row add nothing)
          /\ Log("hint", CHint(rng, kind, cur))
          /\ UNCHANGED <<rng, kind, f, b, cur, dead>>
Next == DoNext \/ DoBack \/ DoHint
Spec == Init /\ [][Next]_vars

\* as-is = ideal, call by call
Refines == [][/\ DoNext => ops'[Len(ops')].ret = IdealNext(rng, kind, f, b)
              /\ DoBack => ops'[Len(ops')].ret = IdealBack(rng, kind, f, b)]_vars
Fused == [][dead /\ (DoNext \/ DoBack) => ops'[Len(ops')].ret = None]_vars
Hint == LET hnt == CHint(rng, kind, cur)
            left == IdealLeft(rng, kind, f, b)
        IN hnt[1] <= left /\ left <= hnt[2] /\ (kind # "used" => hnt[1] = hnt[2])
\* every item exactly once: what the front has given and what the back has given never overlap, and
\* when the cursor is exhausted together they are the whole view
OnceEach == f + b <= Len(Items(rng, kind))
            /\ (dead => f + b = Len(Items(rng, kind)))

Dump == Len(ops) = MaxOps =>
   PrintT(<<"REPLAY", ToJson([range |-> [empty |-> rng.empty, s |-> rng.s, h |-> rng.h, w |-> rng.w, cell |-> rng.cell],
                               kind |-> kind, ops |-> ops,
                               headers |-> Headers(rng),
                               index |-> [i \in 1..(rng.h + 1) |-> [j \in 1..(rng.w + 1) |-> IndexRC(rng, i - 1, j - 1)]],
                               get |-> [i \in 1..(rng.h + 1) |-> [j \in 1..(rng.w + 1) |-> GetRel(rng, i - 1, j - 1)]],
                               rowidx |-> [i \in 1..(rng.h + 1) |-> IndexRow(rng, i - 1)]])>>)
=============================================================================
