SPECIFICATION Spec
CONSTANTS
  MaxH = 2
  MaxW = 2
  Vals = {0, 1, 2}
  MaxOps = 6
  Starts <- StartsBoth
  Kinds = {"rows", "cells", "used"}
INVARIANTS Hint OnceEach Dump
PROPERTIES Refines Fused
CHECK_DEADLOCK FALSE
