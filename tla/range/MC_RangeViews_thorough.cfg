SPECIFICATION Spec
CONSTANTS
  MaxH = 3
  MaxW = 2
  Vals = {0, 1, 2}
  MaxOps = 7
  Starts <- StartsBoth
  Kinds = {"rows", "cells", "used"}
INVARIANTS Hint OnceEach
PROPERTIES Refines Fused
CHECK_DEADLOCK FALSE
