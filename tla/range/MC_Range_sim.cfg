SPECIFICATION Spec
CONSTANTS
  RowSet = {1048569, 1048570, 1048571, 1048573, 1048575}
  ColSet = {16378, 16379, 16381, 16383}
  ValSet = {0, 1, 2, 3}
  MaxSparse = 1
  MaxOps = 12
INVARIANTS Refines IsRect DevIsPanic
ACTION_CONSTRAINT Step
CHECK_DEADLOCK FALSE
