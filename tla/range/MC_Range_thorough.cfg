SPECIFICATION Spec
CONSTANTS
  RowSet = {0, 1, 2, 5}
  ColSet = {0, 1, 3}
  ValSet = {0, 1, 2}
  MaxSparse = 2
  MaxOps = 3
VIEW view
INVARIANTS Refines IsRect Accessors DevIsPanic
PROPERTY OnlyAddressed
ACTION_CONSTRAINT Step
CHECK_DEADLOCK FALSE
