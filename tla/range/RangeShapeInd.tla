--------------------------- MODULE RangeShapeInd ---------------------------
(* C05, unbounded complement to MC_Range: the SHAPE of calamine::Range under set_value for coordinates of *)
(* any size.  s0, s1 / e0, e1 are `start` / `end`, len is inner.len(); SetValue transcribes the three arms *)
(* of src/lib.rs Range::set_value (position inside; below the last row; right of the last column, with or  *)
(* without new rows) as arithmetic on the length of `inner`.  IndInv -- start <= end and                  *)
(* len = height * width -- is inductive, and in every step the index written, (p0 - s0) * width' + (p1 -   *)
(* s1), lies inside the new `inner` (no index panic), for every rectangle and every position not above or  *)
(* left of `start` (the documented precondition, asserted by the code).                                    *)
EXTENDS Integers

VARIABLES
  \* @type: Int;
  s0,
  \* @type: Int;
  s1,
  \* @type: Int;
  e0,
  \* @type: Int;
  e1,
  \* @type: Int;
  len,
  \* @type: Bool;
  inb      \* the last write was inside `inner`

H == e0 - s0 + 1
W == e1 - s1 + 1

Init == s0 \in Nat /\ s1 \in Nat /\ e0 \in Nat /\ e1 \in Nat /\ s0 <= e0 /\ s1 <= e1
        /\ len = (e0 - s0 + 1) * (e1 - s1 + 1) /\ inb = TRUE

SetValue(p0, p1) ==
  /\ s0 <= p0 /\ s1 <= p1
  /\ UNCHANGED <<s0, s1>>
  /\ IF ~(e0 < p0) /\ ~(e1 < p1)
     THEN UNCHANGED <<e0, e1, len>>
     ELSE IF e0 < p0 /\ ~(e1 < p1)
     THEN len' = len + (p0 - e0) * W /\ e0' = p0 /\ e1' = e1
     ELSE LET height == IF e0 < p0 THEN p0 - s0 + 1 ELSE H
              width  == p1 - s1 + 1
          IN /\ len' = H * width + width * (height - H)     \* one widened row per chunk of the old width, then the new rows
             /\ e0' = (IF e0 < p0 THEN p0 ELSE e0) /\ e1' = p1
  /\ inb' = ((p0 - s0) * (e1' - s1 + 1) + (p1 - s1) < len' /\ (p0 - s0) * (e1' - s1 + 1) + (p1 - s1) >= 0)

Next == \E p0, p1 \in Nat : SetValue(p0, p1)

IndInv == /\ 0 <= s0 /\ 0 <= s1 /\ s0 <= e0 /\ s1 <= e1
          /\ len = (e0 - s0 + 1) * (e1 - s1 + 1)
          /\ inb
IndInit == /\ s0 \in Int /\ s1 \in Int /\ e0 \in Int /\ e1 \in Int /\ len \in Int /\ inb \in BOOLEAN
           /\ IndInv
=============================================================================
