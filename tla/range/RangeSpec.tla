----------------------------- MODULE RangeSpec -----------------------------
(***************************************************************************)
(* C05 -- calamine::Range<T> as a state machine.                           *)
(*                                                                         *)
(*  abs : the IDEAL rectangle the property statement talks about           *)
(*        [empty, s, e, cell : [Rect(s,e) -> Val]]                         *)
(*  con : the AS-IS struct of src/lib.rs, transcribed field by field       *)
(*        [s, e, inner : Seq(Val)]  (it can be inconsistent, abs cannot)   *)
(*  sub / csub : the result registers of the last `range(a,b)` call        *)
(*  pan : "" or the panic site the as-is code reaches                      *)
(*                                                                         *)
(* Each public mutating call is one action.  Read accessors do not change  *)
(* state; what they return is defined by Proj* below and compared with the *)
(* real object after every step by the harness (legs 1 and 2).             *)
(***************************************************************************)
EXTENDS Naturals, Sequences, FiniteSets, TLC

Default == 0

--------------------------------------------------------------------------
(* helpers *)
MinN(a, b) == IF a < b THEN a ELSE b
MaxN(a, b) == IF a > b THEN a ELSE b
Zeros(n)   == [i \in 1..n |-> Default]
LeqP(a, b) == a[1] <= b[1] /\ a[2] <= b[2]
Rect(s, e) == (s[1]..e[1]) \X (s[2]..e[2])
SetMin(S)  == CHOOSE x \in S : \A y \in S : x <= y
SetMax(S)  == CHOOSE x \in S : \A y \in S : x >= y

--------------------------------------------------------------------------
(* IDEAL semantics, written from the property statement only *)
AEmpty == [empty |-> TRUE, s |-> <<0, 0>>, e |-> <<0, 0>>, cell |-> <<>>]
ANew(a, b) == [empty |-> FALSE, s |-> a, e |-> b, cell |-> [p \in Rect(a, b) |-> Default]]

\* cs : sequence of [p |-> <<r,c>>, v |-> val]; positions pairwise distinct
ASparse(cs) ==
  IF cs = <<>> THEN AEmpty
  ELSE LET rs == {cs[i].p[1] : i \in 1..Len(cs)}
           ks == {cs[i].p[2] : i \in 1..Len(cs)}
           s  == <<SetMin(rs), SetMin(ks)>>
           e  == <<SetMax(rs), SetMax(ks)>>
       IN [empty |-> FALSE, s |-> s, e |-> e,
           cell |-> [p \in Rect(s, e) |->
                       IF \E i \in 1..Len(cs) : cs[i].p = p
                       THEN cs[CHOOSE i \in 1..Len(cs) : cs[i].p = p].v
                       ELSE Default]]

AGet(a, p) == IF ~a.empty /\ p \in Rect(a.s, a.e) THEN a.cell[p] ELSE Default

\* set_value: exactly p changes, rectangle grows to bbox(old, p)
ASet(a, p, v) ==
  IF a.empty THEN [empty |-> FALSE, s |-> p, e |-> p, cell |-> [q \in {p} |-> v]]
  ELSE LET e2 == <<MaxN(a.e[1], p[1]), MaxN(a.e[2], p[2])>>
       IN [empty |-> FALSE, s |-> a.s, e |-> e2,
           cell |-> [q \in Rect(a.s, e2) |-> IF q = p THEN v ELSE AGet(a, q)]]

\* range(s,e): bounds (s,e), source where they overlap, default elsewhere
ASub(a, s, e) == [empty |-> FALSE, s |-> s, e |-> e,
                  cell |-> [q \in Rect(s, e) |-> AGet(a, q)]]

AH(a) == IF a.empty THEN 0 ELSE a.e[1] - a.s[1] + 1
AW(a) == IF a.empty THEN 0 ELSE a.e[2] - a.s[2] + 1
ProjAbs(a) ==
  [start |-> IF a.empty THEN <<>> ELSE a.s,
   end   |-> IF a.empty THEN <<>> ELSE a.e,
   h |-> AH(a), w |-> AW(a),
   rows |-> [r \in 1..AH(a) |-> [c \in 1..AW(a) |-> a.cell[<<a.s[1] + r - 1, a.s[2] + c - 1>>]]]]

--------------------------------------------------------------------------
(* AS-IS: src/lib.rs transcribed.  u32 subtraction that would underflow   *)
(* cannot happen under the documented preconditions (the actions guard them).    *)
CEmpty == [s |-> <<0, 0>>, e |-> <<0, 0>>, inner |-> <<>>]
CIsEmpty(c) == c.inner = <<>>
CW(c) == IF CIsEmpty(c) THEN 0 ELSE c.e[2] - c.s[2] + 1
CH(c) == IF CIsEmpty(c) THEN 0 ELSE c.e[1] - c.s[1] + 1
CNew(a, b) == [s |-> a, e |-> b, inner |-> Zeros((b[1] - a[1] + 1) * (b[2] - a[2] + 1))]

\* Range::from_sparse: bounds by a scan over all cells (rows and columns; since the hardening
\* commit the rows no longer come from the first / last cell), idx by get_mut (silently ignores
\* an index outside the vector), later cells overwrite earlier ones
CSparse(cs) ==
  IF cs = <<>> THEN CEmpty
  ELSE LET n    == Len(cs)
           rs   == SetMin({cs[i].p[1] : i \in 1..n})
           re   == SetMax({cs[i].p[1] : i \in 1..n})
           cst  == SetMin({cs[i].p[2] : i \in 1..n})
           cen  == SetMax({cs[i].p[2] : i \in 1..n})
           cols == cen - cst + 1
           rows == re - rs + 1
           len  == cols * rows
           Idx(i) == (cs[i].p[1] - rs) * cols + (cs[i].p[2] - cst)
       IN [s |-> <<rs, cst>>, e |-> <<re, cen>>,
           inner |-> [k \in 1..len |->
                        LET hit == {i \in 1..n : Idx(i) = k - 1}
                        IN IF hit = {} THEN Default ELSE cs[SetMax(hit)].v]]

\* slice.chunks(w) for w > 0 ; w = 0 panics in Rust (modelled by the callers)
Chunks(sq, w) ==
  LET n == (Len(sq) + w - 1) \div w
  IN [k \in 1..n |-> SubSeq(sq, (k - 1) * w + 1, MinN(k * w, Len(sq)))]

RECURSIVE Flatten(_)
Flatten(ss) == IF ss = <<>> THEN <<>> ELSE Head(ss) \o Flatten(Tail(ss))

\* Range::set_value ; result [c, pan]
CSet(c, p, v) ==
  LET growR == c.e[1] < p[1]
      growC == c.e[2] < p[2]
      w     == CW(c)
      h     == CH(c)
      c1 == IF ~growR /\ ~growC THEN [c |-> c, pan |-> ""]
            ELSE IF growR /\ ~growC
            THEN [c |-> [c EXCEPT !.inner = @ \o Zeros((p[1] - c.e[1]) * w),
                                  !.e = <<p[1], c.e[2]>>], pan |-> ""]
            ELSE IF w = 0 THEN [c |-> c, pan |-> "set_value: chunks(0) on empty range"]
            ELSE LET height == IF growR THEN p[1] - c.s[1] + 1 ELSE h
                     width  == p[2] - c.s[2] + 1
                     ch     == Chunks(c.inner, w)
                     padded == Flatten([k \in 1..Len(ch) |-> ch[k] \o Zeros(width - w)])
                     data   == padded \o Zeros(width * (height - h))
                 IN [c |-> [s |-> c.s,
                            e |-> IF growR THEN p ELSE <<c.e[1], p[2]>>,
                            inner |-> data], pan |-> ""]
      c2  == c1.c
      idx == (p[1] - c2.s[1]) * CW(c2) + (p[2] - c2.s[2])
  IN IF c1.pan # "" THEN c1
     ELSE IF idx + 1 > Len(c2.inner) THEN [c |-> c2, pan |-> "set_value: index out of bounds"]
     ELSE [c |-> [c2 EXCEPT !.inner[idx + 1] = v], pan |-> ""]

\* Range::range ; result [c, pan]
CRange(c, a, b) ==
  LET other == CNew(a, b)
      sr == MaxN(c.s[1], a[1])   er == MinN(c.e[1], b[1])
      sc == MaxN(c.s[2], a[2])   ec == MinN(c.e[2], b[2])
      sw == CW(c)                ow == CW(other)
  IN IF CIsEmpty(c) \/ sr > er \/ sc > ec THEN [c |-> other, pan |-> ""]
     ELSE LET srs == sr - c.s[1]   sre == er + 1 - c.s[1]
              scs == sc - c.s[2]
              ors == sr - a[1]     ore == er + 1 - a[1]
              ocs == sc - a[2]     oce == ec + 1 - a[2]
              nself == Len(Chunks(c.inner, sw))     \* rows the source really has
          IN [c |-> [other EXCEPT !.inner =
                      [k \in 1..Len(other.inner) |->
                         LET i == (k - 1) \div ow
                             j == (k - 1) % ow
                             si == srs + (i - ors)
                         IN IF i >= ors /\ i < ore /\ j >= ocs /\ j < oce /\ si < MinN(sre, nself)
                            THEN c.inner[si * sw + scs + (j - ocs) + 1]
                            ELSE Default]],
              pan |-> ""]

ProjCon(c) ==
  [start |-> IF CIsEmpty(c) THEN <<>> ELSE c.s,
   end   |-> IF CIsEmpty(c) THEN <<>> ELSE c.e,
   h |-> CH(c), w |-> CW(c),
   rows |-> IF CIsEmpty(c) THEN <<>> ELSE Chunks(c.inner, CW(c))]

\* accessor definitions on the struct (get / get_value as lib.rs computes them)
CGet(c, r, k) == IF k >= CW(c) \/ r >= CH(c) THEN "none"
                 ELSE IF r * CW(c) + k + 1 > Len(c.inner) THEN "none" ELSE c.inner[r * CW(c) + k + 1]
CGetValue(c, p) == IF p[1] >= c.s[1] /\ p[1] <= c.e[1] /\ p[2] >= c.s[2] /\ p[2] <= c.e[2]
                   THEN CGet(c, p[1] - c.s[1], p[2] - c.s[2]) ELSE "none"

Rectangular(c) == Len(c.inner) = CH(c) * CW(c)
=============================================================================
