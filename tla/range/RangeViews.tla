----------------------------- MODULE RangeViews -----------------------------
(***************************************************************************)
(* X05 (extended coverage) -- the READ side of calamine::Range<T>:         *)
(*   rows() / cells() / used_cells()  as double-ended cursors the user may *)
(*   advance from both ends in any interleaving (Iterator, DoubleEnded-    *)
(*   Iterator, ExactSizeIterator / size_hint),                             *)
(*   headers(), Index<usize>, Index<(usize, usize)>, get((r, c)).          *)
(* (The WRITE side -- new / from_sparse / set_value / range -- is          *)
(* RangeSpec.tla, property C05.)                                           *)
(*                                                                         *)
(* A range is [empty, s, h, w, cell] with cell a row-major sequence of     *)
(* value codes (0 is T::default()).  A view is the sequence of items the   *)
(* range shows through one of the three iterators; an open cursor is       *)
(* [kind, f, b]: f items taken from the front, b from the back.            *)
(*                                                                         *)
(*   IDEAL  : Next yields Items[f + 1], NextBack yields Items[n - b], both *)
(*            only while f + b < n; afterwards None for ever; len is the   *)
(*            number of items left (rows, cells) or an upper bound of it   *)
(*            (used_cells: lower bound 0).                                 *)
(*   AS-IS  : src/lib.rs Rows = Option<slice::Chunks>, Cells = Enumerate<  *)
(*            slice::Iter> with (i / width, i % width), UsedCells = the    *)
(*            same with find / rfind over the remaining window [lo, hi):   *)
(*            a search that finds nothing consumes the whole window.       *)
(*            The transcription keeps the window; Refines says both agree. *)
(***************************************************************************)
EXTENDS Naturals, Sequences, FiniteSets, TLC

Default == 0
ValStr(v) == CASE v = 0 -> "" [] v = 1 -> "1" [] v = 2 -> "a" [] OTHER -> "?"     \* Data::Empty, Int(1), String("a")

REmpty == [empty |-> TRUE, s |-> <<0, 0>>, h |-> 0, w |-> 0, cell |-> <<>>]
N(r) == Len(r.cell)
At(r, i, j) == r.cell[i * r.w + j + 1]                         \* 0-based relative position
Row(r, i) == SubSeq(r.cell, i * r.w + 1, (i + 1) * r.w)

--------------------------------------------------------------------------
(* IDEAL views *)
RowsView(r)  == [i \in 1..r.h |-> Row(r, i - 1)]
CellsView(r) == [k \in 1..N(r) |-> <<(k - 1) \div r.w, (k - 1) % r.w, r.cell[k]>>]
UsedIdx(r)   == {k \in 1..N(r) : r.cell[k] # Default}
RECURSIVE SortedSeq(_)
SortedSeq(S) == IF S = {} THEN <<>>
                ELSE LET m == CHOOSE x \in S : \A y \in S : x <= y IN <<m>> \o SortedSeq(S \ {m})
UsedView(r)  == LET ks == SortedSeq(UsedIdx(r)) IN [i \in 1..Len(ks) |-> CellsView(r)[ks[i]]]
Items(r, kind) == CASE kind = "rows" -> IF r.empty THEN <<>> ELSE RowsView(r)
                    [] kind = "cells" -> IF r.empty THEN <<>> ELSE CellsView(r)
                    [] kind = "used" -> IF r.empty THEN <<>> ELSE UsedView(r)

None == <<"none">>
Some(x) == <<"some", x>>
\* result of one operation on a cursor that has taken f from the front and b from the back
IdealNext(r, kind, f, b) == LET it == Items(r, kind) IN IF f + b < Len(it) THEN Some(it[f + 1]) ELSE None
IdealBack(r, kind, f, b) == LET it == Items(r, kind) IN IF f + b < Len(it) THEN Some(it[Len(it) - b]) ELSE None
IdealLeft(r, kind, f, b) == LET n == Len(Items(r, kind)) IN IF f + b < n THEN n - f - b ELSE 0

--------------------------------------------------------------------------
(* AS-IS cursors: a window [lo, hi) of 0-based indices into `inner` (cells, used) or rows (rows) *)
C0(r, kind) == [lo |-> 0, hi |-> IF kind = "rows" THEN (IF N(r) = 0 THEN 0 ELSE r.h) ELSE N(r)]
Tup(r, i) == <<i \div r.w, i % r.w, r.cell[i + 1]>>
CNext(r, kind, c) ==
  CASE kind = "rows"  -> IF c.lo < c.hi THEN [ret |-> Some(Row(r, c.lo)), c |-> [c EXCEPT !.lo = @ + 1]] ELSE [ret |-> None, c |-> c]
    [] kind = "cells" -> IF c.lo < c.hi THEN [ret |-> Some(Tup(r, c.lo)), c |-> [c EXCEPT !.lo = @ + 1]] ELSE [ret |-> None, c |-> c]
    [] kind = "used"  -> LET hits == {i \in c.lo..(c.hi - 1) : r.cell[i + 1] # Default}
                         IN IF hits = {} THEN [ret |-> None, c |-> [c EXCEPT !.lo = c.hi]]
                            ELSE LET i == CHOOSE x \in hits : \A y \in hits : x <= y
                                 IN [ret |-> Some(Tup(r, i)), c |-> [c EXCEPT !.lo = i + 1]]
CBack(r, kind, c) ==
  CASE kind = "rows"  -> IF c.lo < c.hi THEN [ret |-> Some(Row(r, c.hi - 1)), c |-> [c EXCEPT !.hi = @ - 1]] ELSE [ret |-> None, c |-> c]
    [] kind = "cells" -> IF c.lo < c.hi THEN [ret |-> Some(Tup(r, c.hi - 1)), c |-> [c EXCEPT !.hi = @ - 1]] ELSE [ret |-> None, c |-> c]
    [] kind = "used"  -> LET hits == {i \in c.lo..(c.hi - 1) : r.cell[i + 1] # Default}
                         IN IF hits = {} THEN [ret |-> None, c |-> [c EXCEPT !.hi = c.lo]]
                            ELSE LET i == CHOOSE x \in hits : \A y \in hits : x >= y
                                 IN [ret |-> Some(Tup(r, i)), c |-> [c EXCEPT !.hi = i]]
\* size_hint: (lower, upper)
CHint(r, kind, c) == IF kind = "used" THEN <<0, c.hi - c.lo>> ELSE <<c.hi - c.lo, c.hi - c.lo>>

--------------------------------------------------------------------------
(* one-shot reads *)
Headers(r) == IF r.empty \/ N(r) = 0 THEN None ELSE Some([j \in 1..r.w |-> ValStr(r.cell[j])])
\* Index<(usize, usize)>: asserts row < height and column < width; Index<usize>: a slice of inner, panics past the end
IndexRC(r, i, j) == IF i < r.h /\ j < r.w THEN Some(At(r, i, j)) ELSE <<"panic">>
IndexRow(r, i)   == IF (i + 1) * r.w <= N(r) THEN Some(Row(r, i)) ELSE <<"panic">>
\* get((row, col)): None outside -- a column past the width is outside even when the flat index is inside
GetRel(r, i, j)  == IF i < r.h /\ j < r.w THEN Some(At(r, i, j)) ELSE None
=============================================================================
