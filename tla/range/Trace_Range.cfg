SPECIFICATION Spec
INVARIANTS Refines IsRect DevIsPanic
POSTCONDITION Accepted
CHECK_DEADLOCK FALSE
