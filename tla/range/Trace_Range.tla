---------------------------- MODULE Trace_Range ----------------------------
(* code -> spec: a log of operations performed on the real calamine::Range  *)
(* (one ndjson event per call, with the projection of the object after the  *)
(* call) must be a behaviour of RangeSpec's as-is machine, and the property *)
(* invariants are evaluated in every state of it.                           *)
EXTENDS RangeSpec, Json, IOUtils

Rec == ndJsonDeserialize(IOEnv.TRACE)

VARIABLES abs, con, sub, csub, pan, dev, l
vars == <<abs, con, sub, csub, pan, dev, l>>

NoSub == [none |-> TRUE]
PS(x) == IF x = NoSub THEN NoSub ELSE ProjAbs(x)
PC(x) == IF x = NoSub THEN NoSub ELSE ProjCon(x)

Init == /\ abs = AEmpty /\ con = CEmpty /\ sub = NoSub /\ csub = NoSub
        /\ pan = "" /\ dev = {} /\ l = 1

Ev == Rec[l]
IsEvent(e) == l <= Len(Rec) /\ Ev.e = e /\ l' = l + 1
HasPanic == "panic" \in DOMAIN Ev

\* the logged projection must be the one the as-is model computes
Logged == IF pan' # "" THEN HasPanic
          ELSE /\ ~HasPanic
               /\ Ev.post.main = ProjCon(con')
               /\ Ev.post.sub = PC(csub')

ToCells(js) == [i \in 1..Len(js) |-> [p |-> js[i].p, v |-> js[i].v]]

TReset == /\ IsEvent("reset")
          /\ abs' = AEmpty /\ con' = CEmpty /\ sub' = NoSub /\ csub' = NoSub
          /\ pan' = "" /\ dev' = {}

TNew == /\ IsEvent("new") /\ pan = ""
        /\ abs' = ANew(Ev.a, Ev.b) /\ con' = CNew(Ev.a, Ev.b)
        /\ sub' = NoSub /\ csub' = NoSub /\ UNCHANGED <<pan, dev>> /\ Logged

TEmpty == /\ IsEvent("empty") /\ pan = ""
          /\ abs' = AEmpty /\ con' = CEmpty
          /\ sub' = NoSub /\ csub' = NoSub /\ UNCHANGED <<pan, dev>> /\ Logged

TSparse == /\ IsEvent("sparse") /\ pan = ""
           /\ abs' = ASparse(ToCells(Ev.cells)) /\ con' = CSparse(ToCells(Ev.cells))
           /\ sub' = NoSub /\ csub' = NoSub /\ UNCHANGED <<pan, dev>> /\ Logged

TSet == /\ IsEvent("set") /\ pan = ""
        /\ ~abs.empty /\ LeqP(abs.s, Ev.p)          \* documented precondition, respected by the driver
        /\ LET r == CSet(con, Ev.p, Ev.v) IN con' = r.c /\ pan' = r.pan /\ dev' = dev
        /\ abs' = ASet(abs, Ev.p, Ev.v)
        /\ UNCHANGED <<sub, csub>> /\ Logged

TSub == /\ IsEvent("sub") /\ pan = ""
        /\ LET r == CRange(con, Ev.a, Ev.b) IN
             /\ csub' = r.c /\ pan' = r.pan
             /\ dev' = dev
        /\ sub' = ASub(abs, Ev.a, Ev.b)
        /\ UNCHANGED <<abs, con>> /\ Logged

TAdopt == /\ IsEvent("adopt") /\ pan = ""
          /\ LET r == CRange(con, Ev.a, Ev.b) IN
               /\ con' = r.c /\ pan' = r.pan
               /\ dev' = dev
          /\ abs' = ASub(abs, Ev.a, Ev.b)
          /\ sub' = NoSub /\ csub' = NoSub /\ Logged

Next == TReset \/ TNew \/ TEmpty \/ TSparse \/ TSet \/ TSub \/ TAdopt
Spec == Init /\ [][Next]_vars

\* property invariants, evaluated at every state of the observed execution
Refines == dev = {} => /\ pan = ""
                       /\ ProjCon(con) = ProjAbs(abs)
                       /\ PC(csub) = PS(sub)
IsRect == pan = "" => Rectangular(con) /\ (csub # NoSub => Rectangular(csub))
DevIsPanic == dev # {} => pan # ""

Accepted ==
  LET d == TLCGet("stats").diameter IN
  IF d - 1 = Len(Rec) THEN PrintT(<<"ACCEPTED", ToString(Len(Rec))>>)
  ELSE PrintT(<<"REJECTED", ToJson([at |-> d, event |-> Rec[d]])>>)
=============================================================================
