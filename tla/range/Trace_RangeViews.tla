-------------------------- MODULE Trace_RangeViews --------------------------
(* X05, leg 2 (code -> spec): `cvh drive range_views` opens a view on a random real Range<Data>     *)
(* (up to 6 x 5, built by from_sparse, random origin) and logs a random interleaving of next /      *)
(* next_back / size_hint with what each call returned.  Accepted iff every return is what the       *)
(* transcribed cursor of RangeViews.tla returns from the state the log has led to -- and that is    *)
(* the ideal view's item (evaluated at every event).                                               *)
EXTENDS RangeViews, Json, IOUtils

Rec == ndJsonDeserialize(IOEnv.TRACE)
VARIABLES l, rng, kind, cur, f, b
vars == <<l, rng, kind, cur, f, b>>
Ev == Rec[l]
Init == l = 1 /\ rng = REmpty /\ kind = "rows" /\ cur = C0(REmpty, "rows") /\ f = 0 /\ b = 0

TOpen == /\ l <= Len(Rec) /\ Ev.e = "open"
         /\ LET r == [empty |-> Ev.range.empty, s |-> Ev.range.s, h |-> Ev.range.h, w |-> Ev.range.w, cell |-> Ev.range.cell] IN
              /\ rng' = r /\ kind' = Ev.kind /\ cur' = C0(r, Ev.kind)
              /\ Ev.size = <<r.h, r.w>>
              /\ Ev.headers = Headers(r)
         /\ f' = 0 /\ b' = 0 /\ l' = l + 1
TNext == /\ l <= Len(Rec) /\ Ev.e = "next"
         /\ LET x == CNext(rng, kind, cur) IN
              /\ Ev.ret = x.ret /\ x.ret = IdealNext(rng, kind, f, b) /\ cur' = x.c
              /\ f' = IF x.ret # None THEN f + 1 ELSE f
         /\ l' = l + 1 /\ UNCHANGED <<rng, kind, b>>
TBack == /\ l <= Len(Rec) /\ Ev.e = "back"
         /\ LET x == CBack(rng, kind, cur) IN
              /\ Ev.ret = x.ret /\ x.ret = IdealBack(rng, kind, f, b) /\ cur' = x.c
              /\ b' = IF x.ret # None THEN b + 1 ELSE b
         /\ l' = l + 1 /\ UNCHANGED <<rng, kind, f>>
THint == /\ l <= Len(Rec) /\ Ev.e = "hint"
         /\ Ev.ret = CHint(rng, kind, cur)
         /\ Ev.ret[1] <= IdealLeft(rng, kind, f, b) /\ IdealLeft(rng, kind, f, b) <= Ev.ret[2]
         /\ l' = l + 1 /\ UNCHANGED <<rng, kind, cur, f, b>>
TNext_ == TOpen \/ TNext \/ TBack \/ THint
Spec == Init /\ [][TNext_]_vars

Accepted ==
  LET d == TLCGet("stats").diameter IN
  IF d - 1 = Len(Rec) THEN PrintT(<<"ACCEPTED", ToString(Len(Rec))>>)
  ELSE PrintT(<<"REJECTED", ToJson([at |-> d, event |-> Rec[d]])>>)
=============================================================================
