---------------------------- MODULE CellStream ----------------------------
(* The streaming cell readers (XlsxCellReader, XlsbCellsReader): one cursor over the   *)
(* sheet's cell elements/records, advanced by two public calls, next_cell and          *)
(* next_formula, that the user may interleave freely.  worksheet_range and             *)
(* worksheet_formula are nothing but "call next_cell / next_formula until None and     *)
(* from_sparse the non-empty results" (C01/C03/C14 rest on that), so the cursor        *)
(* discipline is what makes those two reads complete and duplicate-free.               *)
(*                                                                                     *)
(* A document is a row-major sorted sequence of cells [pos, kind, id]:                 *)
(*   kind "blank"  a cell element without value (xlsx <c r=".."/>, xlsb BrtCellBlank)  *)
(*        "val"    a constant                                                          *)
(*        "fml"    a formula with a cached value                                       *)
(* id identifies the value / the formula text.                                         *)
(*                                                                                     *)
(* The two formats differ in what one call consumes (transcribed from the code):       *)
(*   xlsx  every call consumes exactly ONE cell element, whatever it holds:            *)
(*         next_cell  -> (pos, value or Empty);  next_formula -> (pos, text or "")     *)
(*   xlsb  next_cell consumes up to and including the next non-blank cell record,      *)
(*         next_formula up to and including the next formula record.                   *)
(* After the end of the data the call returns None; a further call is allowed to       *)
(* return None again or an error (the code reads on into the rest of the part), but    *)
(* never a cell.                                                                       *)
EXTENDS Naturals, Sequences, FiniteSets, TLC

VARIABLES fmt,        \* "xlsx" | "xlsb"                                       (fixed at open)
          doc,        \* the document, a sequence of [kind |-> .., id |-> ..]   (fixed at open)
          cur,        \* number of cells consumed
          ended,      \* a call has returned None
          last,       \* result of the last call: [call, res]  res = <<"none">> | <<"err">> | <<"cell", k, shown>>
          ncalls

vars == <<fmt, doc, cur, ended, last, ncalls>>

Kinds == {"blank", "val", "fml"}

\* what next_cell shows for cell k: its value id, or "Empty"
ShownValue(k) == IF doc[k].kind = "blank" THEN "Empty" ELSE doc[k].id
\* what next_formula shows for cell k: its formula id, or "" for a cell without formula
ShownFormula(k) == IF doc[k].kind = "fml" THEN doc[k].id ELSE "nofmla"

\* the cell a call lands on, or 0 when the data ends first
Target(call) ==
  IF fmt = "xlsx" THEN (IF cur < Len(doc) THEN cur + 1 ELSE 0)
  ELSE LET want == IF call = "cell" THEN {"val", "fml"} ELSE {"fml"}
           cand == {k \in (cur + 1)..Len(doc) : doc[k].kind \in want}
       IN IF cand = {} THEN 0 ELSE CHOOSE k \in cand : \A j \in cand : k <= j

Open(f, d) == fmt = f /\ doc = d /\ cur = 0 /\ ended = FALSE /\ last = [call |-> "open", res |-> <<"none">>] /\ ncalls = 0

Call(call) ==
  /\ ncalls' = ncalls + 1
  /\ UNCHANGED <<fmt, doc>>
  /\ IF ended
       THEN /\ \E r \in {<<"none">>, <<"err">>} : last' = [call |-> call, res |-> r]
            /\ UNCHANGED <<cur, ended>>
       ELSE LET k == Target(call) IN
            IF k = 0
              THEN /\ cur' = Len(doc) /\ ended' = TRUE
                   /\ last' = [call |-> call, res |-> <<"none">>]
              ELSE /\ cur' = k /\ ended' = FALSE
                   /\ last' = [call |-> call, res |-> <<"cell", k,
                                  IF call = "cell" THEN ShownValue(k) ELSE ShownFormula(k)>>]

NextCell == Call("cell")
NextFormula == Call("formula")
Next == NextCell \/ NextFormula

-----------------------------------------------------------------------------
TypeOK == cur \in 0..Len(doc) /\ ended \in BOOLEAN

\* a call never returns a cell at or before one already consumed: no duplicates, document order
Forward == [][last'.res[1] = "cell" => last'.res[2] > cur /\ cur' = last'.res[2]]_vars
\* nothing comes after the end
EndIsFinal == [][ended => (ended' /\ last'.res[1] # "cell")]_vars
\* what a call shows is what the document stores at the cell it lands on
Faithful == last.res[1] = "cell" =>
              LET k == last.res[2] IN
              last.res[3] = (IF last.call = "cell" THEN ShownValue(k) ELSE ShownFormula(k))
\* a call skips only cells it is entitled to skip: none in xlsx, blanks (and for
\* next_formula constants) in xlsb -- so a run of one kind of call sees every cell of its kind
SkipsOnlyIrrelevant ==
  [][\A k \in (cur + 1)..(cur' - (IF last'.res[1] = "cell" THEN 1 ELSE 0)) :
        /\ fmt = "xlsb"
        /\ doc[k].kind \in (IF last'.call = "cell" THEN {"blank"} ELSE {"blank", "val"})]_vars
=============================================================================
