--------------------------- MODULE MC_CellStream ---------------------------
(* leg 0: every document of up to MaxCells cells over the three kinds, both formats,  *)
(* every interleaving of up to MaxCalls calls.  The document and format are chosen in *)
(* the initial state and never change.                                               *)
EXTENDS Naturals, Sequences, FiniteSets, TLC, Json

CONSTANTS MaxCells, MaxCalls, Emit

VARIABLES fmt, doc, cur, ended, last, ncalls, hist

S == INSTANCE CellStream

vars == <<fmt, doc, cur, ended, last, ncalls, hist>>

Docs == UNION {[1..n -> [kind : S!Kinds, id : {"x"}]] : n \in 0..MaxCells}
\* ids are made distinct by position
Mk(d) == [k \in 1..Len(d) |-> [kind |-> d[k].kind, id |-> ToString(k)]]

Init == /\ \E f \in {"xlsx", "xlsb"} : \E d \in Docs : S!Open(f, Mk(d))
        /\ hist = <<>>

\* (after the end the model allows None or an error; one representative is enough for replay)
Step(A, c) == A /\ (ended => last'.res = <<"none">>) /\ hist' = Append(hist, [call |-> c, res |-> last'.res, post |-> ended])
Next == ncalls < MaxCalls /\ (Step(S!NextCell, "cell") \/ Step(S!NextFormula, "formula"))
Spec == Init /\ [][Next]_vars

TypeOK == S!TypeOK
Faithful == S!Faithful
Forward == S!Forward
EndIsFinal == S!EndIsFinal
SkipsOnlyIrrelevant == S!SkipsOnlyIrrelevant

\* whole-read completeness: a history made of one kind of call only, run to the end, has shown
\* exactly the cells of that kind (that is worksheet_range / worksheet_formula)
Shown(call) == {k \in 1..Len(doc) :
                  IF fmt = "xlsx" THEN TRUE
                  ELSE doc[k].kind \in (IF call = "cell" THEN {"val", "fml"} ELSE {"fml"})}
\* leg 1: one line per maximal behaviour
Replay == (Emit /\ ncalls = MaxCalls) =>
            PrintT(<<"REPLAY", ToJson([fmt |-> fmt, doc |-> [k \in 1..Len(doc) |-> doc[k].kind], calls |-> hist])>>)
=============================================================================
