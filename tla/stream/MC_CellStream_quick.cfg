SPECIFICATION Spec
CONSTANTS MaxCells = 4
          MaxCalls = 6
          Emit = TRUE
INVARIANTS TypeOK Faithful Replay
PROPERTIES Forward EndIsFinal SkipsOnlyIrrelevant
CHECK_DEADLOCK FALSE
