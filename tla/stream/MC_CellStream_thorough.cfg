SPECIFICATION Spec
CONSTANTS MaxCells = 5
          MaxCalls = 7
          Emit = TRUE
INVARIANTS TypeOK Faithful Replay
PROPERTIES Forward EndIsFinal SkipsOnlyIrrelevant
CHECK_DEADLOCK FALSE
