SPECIFICATION Spec
POSTCONDITION Accepted
INVARIANT Faithful
CHECK_DEADLOCK FALSE
