--------------------------- MODULE Trace_CellStream ---------------------------
(* code -> spec: every next_cell / next_formula call made on real XlsxCellReader and  *)
(* XlsbCellsReader objects over random documents and random interleavings, with the   *)
(* result projected onto the model's vocabulary (document index of the returned       *)
(* position, whether the shown value/formula is the document's).  Each call must be   *)
(* the CellStream action of the same name taking the cursor to exactly the logged     *)
(* cell; a "whole" event binds worksheet_range / worksheet_formula to the document.   *)
EXTENDS CellStream, Json, IOUtils

Rec == ndJsonDeserialize(IOEnv.TRACE)
VARIABLES l
tvars == <<vars, l>>
Ev == Rec[l]
IsEvent(e) == l <= Len(Rec) /\ Ev.e = e /\ l' = l + 1

Init == l = 1 /\ Open("none", <<>>)

TOpen == /\ IsEvent("open")
         /\ fmt' = Ev.fmt
         /\ doc' = [k \in 1..Len(Ev.doc) |-> [kind |-> Ev.doc[k], id |-> ToString(k)]]
         /\ cur' = 0 /\ ended' = FALSE /\ ncalls' = 0
         /\ last' = [call |-> "open", res |-> <<"none">>]

Logged == IF Ev.res = "cell" THEN <<"cell", Ev.k, Ev.shown>> ELSE <<Ev.res>>

TCall == /\ IsEvent("call")
         /\ Ev.call \in {"cell", "formula"}
         /\ Call(Ev.call)
         /\ last'.res = Logged

TWhole == IsEvent("whole") /\ Ev.ok = TRUE /\ UNCHANGED vars

TNext == TOpen \/ TCall \/ TWhole
Spec == Init /\ [][TNext]_tvars

Accepted ==
  LET d == TLCGet("stats").diameter IN
  IF d - 1 = Len(Rec) THEN PrintT(<<"ACCEPTED", ToString(Len(Rec))>>)
  ELSE PrintT(<<"REJECTED", ToJson([at |-> d, event |-> Rec[d]])>>)
=============================================================================
