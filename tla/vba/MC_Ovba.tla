------------------------------- MODULE MC_Ovba -------------------------------
EXTENDS Ovba, Json
CONSTANTS Period, LastLens, MaxChunks, LitRuns, MaxToksPerChunk

VARIABLES chunks,      \* finished chunks: [raw |-> BOOLEAN, toks |-> Seq(token), len |-> decompressed length]
          cur, pos,    \* tokens and decompressed position of the chunk being written
          target,      \* decompressed length of the chunk being written
          nchunks,     \* how many chunks the container will have
          done
vars == <<chunks, cur, pos, target, nchunks, done>>

IsLast == Len(chunks) + 1 = nchunks
Init == /\ chunks = <<>> /\ cur = <<>> /\ pos = 0 /\ done = FALSE
        /\ nchunks \in 1..MaxChunks
        /\ target \in (IF nchunks = 1 THEN LastLens ELSE {ChunkMax})

Lit(n) == /\ ~done /\ pos + n <= target /\ Len(cur) < MaxToksPerChunk
          /\ cur' = Append(cur, [k |-> "lit", n |-> n]) /\ pos' = pos + n
          /\ UNCHANGED <<chunks, target, nchunks, done>>
\* offsets: the period itself, or the largest multiple of the period not beyond pos
OffsetsAt(p) == {o \in {Period, (p \div Period) * Period} : o >= 1 /\ o <= p}
LensAt(p) == LET rem == target - p  ml == MaxLen(p) IN
             {l \in {3, 4, rem, rem - 1, ml} : l >= 3 /\ l <= ml /\ l <= rem}
Copy(off, len) == /\ ~done /\ pos >= 1 /\ Len(cur) < MaxToksPerChunk
                  /\ off \in OffsetsAt(pos) /\ len \in LensAt(pos)
                  /\ cur' = Append(cur, [k |-> "copy", off |-> off, len |-> len]) /\ pos' = pos + len
                  /\ UNCHANGED <<chunks, target, nchunks, done>>
NextTarget == IF Len(chunks) + 2 = nchunks THEN LastLens ELSE {ChunkMax}
CloseChunk == /\ ~done /\ pos = target /\ cur # <<>>
              /\ chunks' = Append(chunks, [raw |-> FALSE, toks |-> cur, len |-> target])
              /\ cur' = <<>> /\ pos' = 0
              /\ IF IsLast THEN done' = TRUE /\ target' = target
                 ELSE done' = FALSE /\ target' \in NextTarget
              /\ UNCHANGED nchunks
\* a full chunk may be stored raw
RawChunk == /\ ~done /\ pos = 0 /\ cur = <<>> /\ target = ChunkMax
            /\ chunks' = Append(chunks, [raw |-> TRUE, toks |-> <<>>, len |-> ChunkMax])
            /\ IF IsLast THEN done' = TRUE /\ target' = target ELSE done' = FALSE /\ target' \in NextTarget
            /\ UNCHANGED <<cur, pos, nchunks>>
Next == (\E n \in LitRuns : Lit(n))
        \/ (\E o \in OffsetsAt(pos) : \E l \in LensAt(pos) : Copy(o, l)) \/ CloseChunk \/ RawChunk
Spec == Init /\ [][Next]_vars

\* framing: over the whole container the reader's offset equals the writer's at every chunk start
Aligned == \A i \in 1..Len(chunks) :
             chunks[i].raw \/ ReaderConsumes(chunks[i].toks, i < nchunks) = DataBytes(chunks[i].toks)
\* every compressed chunk fits the 12-bit size field and decompresses to its declared length
SizesOK == \A i \in 1..Len(chunks) :
             chunks[i].raw \/ (DataBytes(chunks[i].toks) <= 4096 /\ OutLen(chunks[i].toks) = chunks[i].len)
\* the pinned reader loses alignment exactly on a complete last flag group of a non-final chunk
PinnedDeviates == \E i \in 1..Len(chunks) : ~chunks[i].raw /\ i < nchunks /\ NTok(chunks[i].toks) % 8 = 0

Dump == done => PrintT(<<"REPLAY", ToJson([period |-> Period, chunks |-> chunks, pinned_deviates |-> PinnedDeviates])>>)
=============================================================================
