SPECIFICATION Spec
CONSTANTS
  Period = 3
  LastLens = {1, 9, 4096}
  MaxChunks = 2
  LitRuns = {1, 2, 7, 8, 9}
  MaxToksPerChunk = 3
INVARIANTS Aligned SizesOK Dump
CHECK_DEADLOCK FALSE
