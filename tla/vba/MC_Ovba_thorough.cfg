SPECIFICATION Spec
CONSTANTS
  Period = 3
  LastLens = {1, 2, 9, 17, 4095, 4096}
  MaxChunks = 2
  LitRuns = {1, 2, 7, 8, 9, 16}
  MaxToksPerChunk = 4
INVARIANTS Aligned SizesOK Dump
CHECK_DEADLOCK FALSE
