------------------------------ MODULE MC_VbaDir ------------------------------
EXTENDS VbaDir, Json
CONSTANTS MaxRefs, MaxModules, Hosts, CodePages, Shapes, Offsets, Flags, Compat,
          RefLibs      \* FALSE: every reference carries the standard libid (C18: names); TRUE: every combination of LibIds (X07)
VARIABLES d, done
Init == /\ \E c \in Compat : \E cp \in CodePages : \E h \in Hosts :
             d = [compat |-> c, cp |-> cp, host |-> h, refs |-> <<>>, modules |-> <<>>]
        /\ done = FALSE
AddRef == /\ ~done /\ Len(d.refs) < MaxRefs /\ d.modules = <<>>
          /\ \E k \in RefKinds : \E nm \in {"RefA", "RefB"} :
               (\A i \in 1..Len(d.refs) : d.refs[i].name # nm)
               /\ \E libs \in (IF RefLibs THEN [1..NLibs(k) -> LibIds] ELSE {[i \in 1..NLibs(k) |-> "std"]}) :
                    d' = [d EXCEPT !.refs = Append(@, [kind |-> k, name |-> nm, libs |-> libs])]
          /\ UNCHANGED done
AddModule == /\ ~done /\ Len(d.modules) < MaxModules
             /\ \E nm \in {"Module1", "local", "ThisWorkbook"} : \E cl \in Flags : \E ro \in Flags : \E pv \in Flags :
                \E off \in Offsets : \E sh \in Shapes :
                  (\A i \in 1..Len(d.modules) : d.modules[i].name # nm)
                  /\ (ro /\ pv => cl)                 \* keep the product small: both flags only on class modules
                  /\ d' = [d EXCEPT !.modules = Append(@, [name |-> nm, class |-> cl, readonly |-> ro, private |-> pv, offset |-> off, shape |-> sh])]
             /\ UNCHANGED done
End == ~done /\ done' = TRUE /\ UNCHANGED d
Next == AddRef \/ AddModule \/ End
Spec == Init /\ [][Next]_<<d, done>>
RefRules == \A i \in 1..Len(d.refs) : PathIsFirst(d.refs[i]) /\ DescIsLast(d.refs[i])
Dump == done => PrintT(<<"REPLAY", ToJson([d |-> d, modules |-> IdealModules(d), refs |-> IdealRefs(d),
                                           refdetail |-> [i \in 1..Len(d.refs) |-> RefDetail(d.refs[i])],
                                           chunks |-> [i \in 1..Len(d.modules) |-> Shape(d.modules[i].shape)],
                                           lens |-> [i \in 1..Len(d.modules) |-> IdealLen(d, i)]])>>)
=============================================================================
