SPECIFICATION Spec
CONSTANTS
  MaxRefs = 1
  MaxModules = 1
  Hosts = {"bin", "xlsm", "xlsb", "xls"}
  CodePages = {1252, 1251, 932}
  Shapes = {"lit9", "grp8"}
  Offsets = {0, 1}
  Flags = {FALSE}
  Compat = {FALSE, TRUE}
  RefLibs = FALSE
INVARIANT Dump
CHECK_DEADLOCK FALSE
