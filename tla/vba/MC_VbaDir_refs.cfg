SPECIFICATION Spec
CONSTANTS
  MaxRefs = 1
  MaxModules = 1
  Hosts = {"bin", "xls"}
  CodePages = {1252}
  Shapes = {"lit9"}
  Offsets = {0}
  Flags = {FALSE}
  Compat = {FALSE}
  RefLibs = TRUE
INVARIANTS RefRules Dump
CHECK_DEADLOCK FALSE
