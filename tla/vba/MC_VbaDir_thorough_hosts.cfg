SPECIFICATION Spec
CONSTANTS
  MaxRefs = 2
  MaxModules = 1
  Hosts = {"bin", "xlsm", "xlsb", "xls"}
  CodePages = {1252, 1251, 932}
  Shapes = {"lit9", "copy", "raw", "grp8"}
  Offsets = {0, 1, 3000}
  Flags = {FALSE, TRUE}
  Compat = {FALSE, TRUE}
  RefLibs = FALSE
INVARIANT Dump
CHECK_DEADLOCK FALSE
