SPECIFICATION Spec
CONSTANTS
  MaxRefs = 0
  MaxModules = 3
  Hosts = {"bin"}
  CodePages = {1252}
  Shapes = {"lit9", "copy", "raw", "grp8"}
  Offsets = {0, 3000}
  Flags = {FALSE, TRUE}
  Compat = {FALSE}
  RefLibs = FALSE
INVARIANT Dump
CHECK_DEADLOCK FALSE
