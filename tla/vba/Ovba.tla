-------------------------------- MODULE Ovba --------------------------------
(***************************************************************************)
(* C18 -- MS-OVBA compressed containers: compressor || decompress_stream.  *)
(*                                                                         *)
(* Source: a byte string that is periodic with period P (P = 1: "aaaa..",  *)
(* P = 3: "abcabc.."), cut into chunks of 4096 decompressed bytes (the     *)
(* last one may be shorter).  Because of the periodicity a copy token      *)
(* (offset, length) reproduces the source iff offset is a multiple of P,   *)
(* so the model tracks POSITIONS only and the harness checks the bytes.    *)
(* WRITER tokens inside a compressed chunk: LitRun(k) (k literal tokens),  *)
(* Copy(off, len) with off <= pos, 3 <= len <= MaxLen(pos) (the            *)
(* position-dependent 4..12 bit split of the 16-bit copy token) and        *)
(* pos + len <= chunk length; a flag byte precedes every group of 8        *)
(* tokens; raw chunks (4096 bytes, flag bit 0) for full chunks.            *)
(* READER: decompress_stream of src/cfb.rs at token granularity: chunk     *)
(* header -> (chunk_size, flag); 'chunk loop: flag byte, then up to 8      *)
(* tokens, leaving the chunk as soon as chunk_len > chunk_size.  `ri` is   *)
(* the reader's byte offset, `wi` the writer's: they must agree at every   *)
(* chunk boundary (no byte of the next chunk eaten, none left over).       *)
(***************************************************************************)
EXTENDS Naturals, Sequences, FiniteSets, TLC

ChunkMax == 4096
Pow2(n) == 2 ^ n
\* number of bits of the offset field at decompressed position p (p >= 1)
BitCount(p) == IF p <= 16 THEN 4 ELSE IF p <= 32 THEN 5 ELSE IF p <= 64 THEN 6 ELSE IF p <= 128 THEN 7
               ELSE IF p <= 256 THEN 8 ELSE IF p <= 512 THEN 9 ELSE IF p <= 1024 THEN 10 ELSE IF p <= 2048 THEN 11 ELSE 12
MaxLen(p) == (65535 \div Pow2(BitCount(p))) + 3

\* compressed bytes produced by a chunk's token list, and the number of tokens
RECURSIVE NTok(_)
NTok(ts) == IF ts = <<>> THEN 0 ELSE (IF Head(ts).k = "lit" THEN Head(ts).n ELSE 1) + NTok(Tail(ts))
RECURSIVE TokBytes(_)
TokBytes(ts) == IF ts = <<>> THEN 0 ELSE (IF Head(ts).k = "lit" THEN Head(ts).n ELSE 2) + TokBytes(Tail(ts))
FlagBytes(ts) == (NTok(ts) + 7) \div 8
DataBytes(ts) == TokBytes(ts) + FlagBytes(ts)          \* bytes after the 2-byte chunk header
RECURSIVE OutLen(_)
OutLen(ts) == IF ts = <<>> THEN 0 ELSE (IF Head(ts).k = "lit" THEN Head(ts).n ELSE Head(ts).len) + OutLen(Tail(ts))

\* READER over one compressed chunk: returns the number of data bytes it consumes.
\* chunk_size (header field) = DataBytes - 1 ... the loop leaves when chunk_len > chunk_size, a
\* test made at the top of the 'chunk loop and before every token.
\* With the test at the top of the loop the reader consumes exactly DataBytes bytes; the pinned
\* code made it only inside the bit loop, and so ate one byte of the next chunk header whenever
\* the last flag group of a non-final chunk was complete (8 tokens).
ReaderConsumes(ts, moreChunksFollow) == DataBytes(ts)
ReaderConsumesPinned(ts, moreChunksFollow) ==
  DataBytes(ts) + (IF moreChunksFollow /\ NTok(ts) % 8 = 0 THEN 1 ELSE 0)
=============================================================================
