------------------------------- MODULE Trace_Ovba -------------------------------
(* code -> spec: greedy / random / literal-only tokenisations of larger periodic    *)
(* sources (1..5 chunks, raw chunks), decompressed by the real decompress_stream;    *)
(* the logged numbers must satisfy the container arithmetic of Ovba.tla and the      *)
(* output must be the source.                                                        *)
EXTENDS Ovba, Json, IOUtils
Rec == ndJsonDeserialize(IOEnv.TRACE)
VARIABLES l
Ev == Rec[l]
Init == l = 1
ChunkBytes(c) == IF c.raw THEN 2 + 4096 ELSE 2 + c.tokbytes + ((c.ntok + 7) \div 8)
RECURSIVE SumBytes(_)
SumBytes(cs) == IF cs = <<>> THEN 0 ELSE ChunkBytes(Head(cs)) + SumBytes(Tail(cs))
RECURSIVE SumOut(_)
SumOut(cs) == IF cs = <<>> THEN 0 ELSE Head(cs).len + SumOut(Tail(cs))
TContainer == /\ l <= Len(Rec) /\ Ev.e = "container"
              \* every compressed chunk decompresses to its declared length and fits the size field
              /\ \A i \in 1..Len(Ev.chunks) : Ev.chunks[i].raw \/ (Ev.chunks[i].outlen = Ev.chunks[i].len /\ ChunkBytes(Ev.chunks[i]) - 3 <= 4095)
              \* reader and writer agree on the number of compressed bytes (framing) ...
              /\ Ev.compressed_len = 1 + SumBytes(Ev.chunks)
              \* ... and the real decompressor returned the whole source, byte for byte
              /\ Ev.out_len = SumOut(Ev.chunks) /\ Ev.bytes_equal_source = TRUE
              /\ l' = l + 1
Spec == Init /\ [][TContainer]_l
Accepted ==
  LET d == TLCGet("stats").diameter IN
  IF d - 1 = Len(Rec) THEN PrintT(<<"ACCEPTED", ToString(Len(Rec))>>)
  ELSE PrintT(<<"REJECTED", ToJson([at |-> d, event |-> Rec[d]])>>)
=============================================================================
