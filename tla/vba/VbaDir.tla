------------------------------- MODULE VbaDir -------------------------------
(***************************************************************************)
(* C18 -- VBA project layout: the `dir` stream's record walk and the       *)
(* module streams.                                                         *)
(* Descriptor: optional PROJECTCOMPATVERSION record, code page, 0..2       *)
(* references (REGISTERED / PROJECT / CONTROL / CONTROL with extended name *)
(* / ORIGINAL+CONTROL, each preceded by a NAME record), 0..3 modules       *)
(* (ASCII or code-page specific name, procedural or class, optional        *)
(* READONLY / PRIVATE records, source offset 0 / 1 / 3000 into the module  *)
(* stream, source container shape), and the host (bare vbaProject.bin,     *)
(* xlsm part, xlsb part, _VBA_PROJECT_CUR storage of an xls file).         *)
(* Ideal: module names = the declared ones; raw content = decompression of *)
(* the container from the recorded offset; text = content decoded with the *)
(* code page; references listed by name, in order.                         *)
(* Reader: read_dir_information / Reference::from_stream / read_modules    *)
(* walk exactly the records the writer emits (fixed-size skips for the     *)
(* fixed records, variable records by declared size); modelled by the      *)
(* record list: the walk succeeds iff the list has the expected shape.     *)
(***************************************************************************)
EXTENDS Naturals, Sequences, FiniteSets, TLC

\* source container shapes (token lists per chunk, decompressed length) -- see Ovba.tla
Shape(k) ==
  CASE k = "lit9"  -> << [raw |-> FALSE, toks |-> <<[k |-> "lit", n |-> 9]>>, len |-> 9] >>
    [] k = "copy"  -> << [raw |-> FALSE, toks |-> <<[k |-> "lit", n |-> 3], [k |-> "copy", off |-> 3, len |-> 4093]>>, len |-> 4096],
                         [raw |-> FALSE, toks |-> <<[k |-> "lit", n |-> 8], [k |-> "copy", off |-> 6, len |-> 4]>>, len |-> 12] >>
    [] k = "raw"   -> << [raw |-> TRUE, toks |-> <<>>, len |-> 4096],
                         [raw |-> FALSE, toks |-> <<[k |-> "lit", n |-> 1]>>, len |-> 1] >>
    \* a non-final chunk whose last flag group is complete (8 tokens): the case the pinned reader mis-framed
    [] k = "grp8"  -> << [raw |-> FALSE, toks |-> <<[k |-> "lit", n |-> 7], [k |-> "copy", off |-> 3, len |-> 4089]>>, len |-> 4096],
                         [raw |-> FALSE, toks |-> <<[k |-> "lit", n |-> 5]>>, len |-> 5] >>
RECURSIVE SumLen(_)
SumLen(cs) == IF cs = <<>> THEN 0 ELSE Head(cs).len + SumLen(Tail(cs))

RefKinds == {"registered", "project", "control", "control_named", "original"}
IdealModules(d) == {d.modules[i].name : i \in 1..Len(d.modules)}
IdealRefs(d) == [i \in 1..Len(d.refs) |-> d.refs[i].name]
IdealLen(d, i) == SumLen(Shape(d.modules[i].shape))

--------------------------------------------------------------------------
(* X07 (extended coverage): description and path of a reference.  A reference record carries one to three     *)
(* LIBIDs -- REGISTERED one; CONTROL a twiddled and an extended one; ORIGINAL + CONTROL the original one       *)
(* first -- of the form  *\G{guid}#version#lcid#path#description.  Reference::set_libid is applied to each in  *)
(* order: an empty libid and one ending in "##" change nothing; otherwise the description is the text after    *)
(* the last '#', and the text before it is the path unless a path is already set ("use original path").       *)
(* A PROJECT reference's path is its absolute libid without the "*\C" prefix.  A libid is modelled by its id.  *)
LibIds == {"std", "other", "nopath", "hashhash", "empty"}
LibDesc(l) == CASE l = "std" -> "OLE Automation" [] l = "other" -> "Other Lib" [] l = "nopath" -> "Desc Only" [] OTHER -> ""
LibPath(l) == CASE l = "std" -> "C:\\Windows\\System32\\stdole2.tlb" [] l = "other" -> "D:\\lib\\other.dll" [] OTHER -> ""
Effective(l) == l \notin {"hashhash", "empty"}
NLibs(kind) == CASE kind = "registered" -> 1 [] kind \in {"control", "control_named"} -> 2 [] kind = "original" -> 3 [] OTHER -> 0
RECURSIVE ApplyLibs(_, _)
\* ref = [desc, path]; libs applied left to right
ApplyLibs(ref, libs) ==
  IF libs = <<>> THEN ref
  ELSE LET l == Head(libs)
           r2 == IF ~Effective(l) THEN ref
                 ELSE [desc |-> LibDesc(l), path |-> IF LibPath(l) # "" /\ ref.path = "" THEN LibPath(l) ELSE ref.path]
       IN ApplyLibs(r2, Tail(libs))
RefDetail(r) ==
  IF r.kind = "project" THEN [name |-> r.name, desc |-> r.name, path |-> "C:\\books\\other.xlsm"]
  ELSE LET x == ApplyLibs([desc |-> r.name, path |-> ""], r.libs) IN [name |-> r.name, desc |-> x.desc, path |-> x.path]
\* the two rules as properties of the model (TLC: MC_VbaDir_refs.cfg)
PathIsFirst(r) == r.kind # "project" =>
   LET withp == SelectSeq(r.libs, LAMBDA l : Effective(l) /\ LibPath(l) # "")
   IN RefDetail(r).path = (IF withp = <<>> THEN "" ELSE LibPath(withp[1]))
DescIsLast(r) == r.kind # "project" =>
   LET eff == SelectSeq(r.libs, Effective)
   IN RefDetail(r).desc = (IF eff = <<>> THEN r.name ELSE LibDesc(eff[Len(eff)]))
=============================================================================
