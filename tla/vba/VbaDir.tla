------------------------------- MODULE VbaDir -------------------------------
(***************************************************************************)
(* C18 -- VBA project layout: the `dir` stream's record walk and the       *)
(* module streams.                                                         *)
(* Descriptor: optional PROJECTCOMPATVERSION record, code page, 0..2       *)
(* references (REGISTERED / PROJECT / CONTROL / CONTROL with extended name *)
(* / ORIGINAL+CONTROL, each preceded by a NAME record), 0..3 modules       *)
(* (ASCII or code-page specific name, procedural or class, optional        *)
(* READONLY / PRIVATE records, source offset 0 / 1 / 3000 into the module  *)
(* stream, source container shape), and the host (bare vbaProject.bin,     *)
(* xlsm part, xlsb part, _VBA_PROJECT_CUR storage of an xls file).         *)
(* Ideal: module names = the declared ones; raw content = decompression of *)
(* the container from the recorded offset; text = content decoded with the *)
(* code page; references listed by name, in order.                         *)
(* Reader: read_dir_information / Reference::from_stream / read_modules    *)
(* walk exactly the records the writer emits (fixed-size skips for the     *)
(* fixed records, variable records by declared size); modelled by the      *)
(* record list: the walk succeeds iff the list has the expected shape.     *)
(***************************************************************************)
EXTENDS Naturals, Sequences, FiniteSets, TLC

\* source container shapes (token lists per chunk, decompressed length) -- see Ovba.tla
Shape(k) ==
  CASE k = "lit9"  -> << [raw |-> FALSE, toks |-> <<[k |-> "lit", n |-> 9]>>, len |-> 9] >>
    [] k = "copy"  -> << [raw |-> FALSE, toks |-> <<[k |-> "lit", n |-> 3], [k |-> "copy", off |-> 3, len |-> 4093]>>, len |-> 4096],
                         [raw |-> FALSE, toks |-> <<[k |-> "lit", n |-> 8], [k |-> "copy", off |-> 6, len |-> 4]>>, len |-> 12] >>
    [] k = "raw"   -> << [raw |-> TRUE, toks |-> <<>>, len |-> 4096],
                         [raw |-> FALSE, toks |-> <<[k |-> "lit", n |-> 1]>>, len |-> 1] >>
    \* a non-final chunk whose last flag group is complete (8 tokens): the case the pinned reader mis-framed
    [] k = "grp8"  -> << [raw |-> FALSE, toks |-> <<[k |-> "lit", n |-> 7], [k |-> "copy", off |-> 3, len |-> 4089]>>, len |-> 4096],
                         [raw |-> FALSE, toks |-> <<[k |-> "lit", n |-> 5]>>, len |-> 5] >>
RECURSIVE SumLen(_)
SumLen(cs) == IF cs = <<>> THEN 0 ELSE Head(cs).len + SumLen(Tail(cs))

RefKinds == {"registered", "project", "control", "control_named", "original"}
IdealModules(d) == {d.modules[i].name : i \in 1..Len(d.modules)}
IdealRefs(d) == [i \in 1..Len(d.refs) |-> d.refs[i].name]
IdealLen(d, i) == SumLen(Shape(d.modules[i].shape))
=============================================================================
