--------------------------- MODULE MC_XlsbFraming ---------------------------
(* Streams of up to MaxRecs records over Ids x Lens: after every record the  *)
(* reader's byte offset equals the writer's, and it decoded the id and the   *)
(* length that were written.  Every (id, len) pair is exported with its      *)
(* header bytes ("FRAME" lines); the harness checks that its record writer   *)
(* (build/xlsb.rs) produces exactly these bytes and embeds such a record     *)
(* between two cells of a real sheet.                                        *)
EXTENDS XlsbFraming, Json

CONSTANTS Ids, Lens, Slack, MaxRecs

VARIABLES wpos, rpos, n, last
vars == <<wpos, rpos, n, last>>

Init == wpos = 0 /\ rpos = 0 /\ n = 0 /\ last = [id |-> 0, len |-> 0, typ |-> 0, rlen |-> 0, hdr |-> <<0, 0>>]

WRec(id, len, slack) ==
  /\ n < MaxRecs
  /\ MinLenBytes(len) + slack <= 4
  /\ LET hdr == Header(id, len, MinLenBytes(len) + slack)
         r == ReadHeader(hdr)
     IN /\ wpos' = wpos + Len(hdr) + len
        /\ rpos' = rpos + r.used + r.len          \* read_exact(&mut buf[..len])
        /\ last' = [id |-> id, len |-> len, typ |-> r.typ, rlen |-> r.len, hdr |-> hdr]
  /\ n' = n + 1

Next == \E id \in Ids, len \in Lens, s \in Slack : WRec(id, len, s)
Spec == Init /\ [][Next]_vars

Aligned == rpos = wpos
Decoded == last.typ = last.id /\ last.rlen = last.len
HeaderSize == Len(last.hdr) <= 6

Dump == n = 1 => PrintT(<<"FRAME", ToJson([id |-> last.id, len |-> last.len, hdr |-> last.hdr])>>)
=============================================================================
