SPECIFICATION Spec
CONSTANTS
  Ids = {0, 1, 2, 11, 35, 36, 49, 50, 127, 128, 129, 145, 146, 255, 426, 1024, 16383}
  Lens = {0, 1, 127, 128, 16383, 16384, 2097151, 2097152}
  Slack = {0}
  MaxRecs = 2
INVARIANTS Aligned Decoded HeaderSize Dump
CHECK_DEADLOCK FALSE
