SPECIFICATION Spec
CONSTANTS
  Ids = {0, 1, 2, 11, 35, 36, 49, 50, 127, 128, 129, 145, 146, 255, 256, 426, 1024, 8191, 8192, 16383}
  Lens = {0, 1, 2, 126, 127, 128, 129, 255, 256, 16383, 16384, 16385, 2097151, 2097152, 2097153}
  Slack = {0}
  MaxRecs = 3
INVARIANTS Aligned Decoded HeaderSize Dump
CHECK_DEADLOCK FALSE
