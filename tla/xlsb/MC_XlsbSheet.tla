---------------------------- MODULE MC_XlsbSheet ----------------------------
(***************************************************************************)
(* Writer || reader for C03.  The writer emits the cell table one record   *)
(* at a time: BrtRowHdr with ascending rows, cell records with ascending   *)
(* columns, and -- at every gap (before the first row, between cells,      *)
(* between rows, before BrtEndSheetData) -- records the reader does not    *)
(* interpret.  Legal fillers (MS-XLSB 2.1.7.62 CELLTABLE): BrtCellMeta(49) *)
(* / BrtValueMeta(50) in front of a cell, BrtArrFmla(426)/BrtShrFmla(427)  *)
(* behind a formula cell, and future records of any unassigned type inside *)
(* a BrtFRTBegin(35) .. BrtFRTEnd(36) bracket (written as three tokens).   *)
(* The writer never uses an id the reader interprets for a filler.         *)
(***************************************************************************)
EXTENDS XlsbSheet, Json

CONSTANTS RowSet, ColSet, Vals, Ign, MaxRows, MaxCells, MaxIgn, Pres, MaxArea

G(id, len) == [id |-> id, len |-> len]
\* named filler alphabets (cfg files cannot contain records)
IgnSet ==
  CASE Ign = "none" -> {}
    [] Ign = "meta" -> {G(49, 4)}
    [] Ign = "quick" -> {G(49, 4), G(62, 24), G(427, 128), G(16383, 0), G(5000, 16384)}   \* 62 = BrtCellRString: a cell record the reader does not interpret
    [] Ign = "lens" -> {G(id, len) : id \in {50, 426, 16383, 127}, len \in {0, 1, 127, 128, 16383, 16384}}
    [] Ign = "big"  -> {G(16383, 2097151), G(5000, 2097152), G(50, 4)}

SST == <<"sst0", "shared one", "x">>

ValTable == <<
  [k |-> "rk",   int |-> TRUE,  d100 |-> FALSE, m |-> "5",          canon |-> "5"],
  [k |-> "rk",   int |-> TRUE,  d100 |-> FALSE, m |-> "-3",         canon |-> "-3"],
  [k |-> "rk",   int |-> TRUE,  d100 |-> TRUE,  m |-> "150",        canon |-> "1.5"],
  [k |-> "rk",   int |-> TRUE,  d100 |-> TRUE,  m |-> "-12345",     canon |-> "-123.45"],
  [k |-> "rk",   int |-> FALSE, d100 |-> FALSE, m |-> "1.5",        canon |-> "1.5"],
  [k |-> "rk",   int |-> FALSE, d100 |-> TRUE,  m |-> "25",         canon |-> "0.25"],
  [k |-> "rk",   int |-> TRUE,  d100 |-> FALSE, m |-> "536870911",  canon |-> "536870911"],
  [k |-> "rk",   int |-> TRUE,  d100 |-> FALSE, m |-> "-536870912", canon |-> "-536870912"],
  [k |-> "rk",   int |-> FALSE, d100 |-> FALSE, m |-> "-1048576",   canon |-> "-1048576"],
  [k |-> "real", x |-> "1.5",       canon |-> "1.5"],
  [k |-> "real", x |-> "0",         canon |-> "0"],
  [k |-> "real", x |-> "-2.5e-300", canon |-> "-2.5e-300"],
  [k |-> "bool", b |-> TRUE,  canon |-> "true"],
  [k |-> "bool", b |-> FALSE, canon |-> "false"],
  [k |-> "err",  e |-> "Null",  canon |-> "Null"],
  [k |-> "err",  e |-> "Div0",  canon |-> "Div0"],
  [k |-> "err",  e |-> "Value", canon |-> "Value"],
  [k |-> "err",  e |-> "Ref",   canon |-> "Ref"],
  [k |-> "err",  e |-> "Name",  canon |-> "Name"],
  [k |-> "err",  e |-> "Num",   canon |-> "Num"],
  [k |-> "err",  e |-> "NA",    canon |-> "NA"],
  [k |-> "err",  e |-> "GettingData", canon |-> "GettingData"],
  [k |-> "st",   s |-> "ab",    canon |-> "ab"],
  [k |-> "st",   s |-> "a<&>\"b c", canon |-> "a<&>\"b c"],
  [k |-> "isst", i |-> 0, canon |-> ""],
  [k |-> "isst", i |-> 2, canon |-> ""],
  [k |-> "fnum", x |-> "1.5",   canon |-> "1.5"],
  [k |-> "fnum", x |-> "-7",    canon |-> "-7"],
  [k |-> "fstr", s |-> "ab",    canon |-> "ab"],
  [k |-> "fbool", b |-> TRUE,   canon |-> "true"],
  [k |-> "fbool", b |-> FALSE,  canon |-> "false"],
  [k |-> "ferr", e |-> "Div0",  canon |-> "Div0"],
  [k |-> "ferr", e |-> "NA",    canon |-> "NA"],
  [k |-> "blank", canon |-> ""],
  \* the empty string is a value: a constant BrtCellSt "" and a formula evaluating to "" read alike
  [k |-> "st",   s |-> "",      canon |-> ""],
  [k |-> "fstr", s |-> "",      canon |-> ""]
>>

VARIABLES toks,     \* writer: records of the cell table so far
          wrow,     \* writer: current row (-1 coded as "none" through hasrow)
          hasrow, wcol, ncell, nign, nrow, pre, done,
          rd        \* reader: next_cell's state [row, out, stop]
vars == <<toks, wrow, hasrow, wcol, ncell, nign, nrow, pre, done, rd>>

PreSet == IF Pres = "all"
          THEN [ws_prop : BOOLEAN, views : BOOLEAN, fmt_info : BOOLEAN, col_infos : {0, 2}]
          ELSE {[ws_prop |-> TRUE, views |-> TRUE, fmt_info |-> TRUE, col_infos |-> 1]}

Init == /\ toks = <<>> /\ wrow = 0 /\ hasrow = FALSE /\ wcol = 0 /\ ncell = 0 /\ nign = 0
        /\ nrow = 0 /\ done = FALSE /\ rd = ReadInit
        /\ pre \in PreSet

Emit(seq) == /\ toks' = toks \o seq
             /\ rd' = FoldLeft(LAMBDA a, tk : CellStep(a, tk, SST), rd, seq)

WRow(r) ==
  /\ ~done /\ nrow < MaxRows /\ (hasrow => r > wrow)
  /\ Emit(<<[t |-> "row", r |-> r]>>)
  /\ wrow' = r /\ hasrow' = TRUE /\ wcol' = 0 /\ ncell' = 0 /\ nrow' = nrow + 1
  /\ UNCHANGED <<nign, pre, done>>

WCell(c, v) ==
  /\ ~done /\ hasrow /\ ncell < MaxCells /\ (ncell > 0 => c > wcol)
  /\ Emit(<<[t |-> "cell", c |-> c, v |-> ValTable[v]]>>)
  /\ wcol' = c /\ ncell' = ncell + 1
  /\ UNCHANGED <<wrow, hasrow, nign, nrow, pre, done>>

\* unassigned record types travel inside an FRT bracket
Bare == {49, 50, 426, 427}
WIgn(g) ==
  /\ ~done /\ nign < MaxIgn
  /\ g.id \notin Interpreted
  /\ Emit(IF g.id \in Bare THEN <<[t |-> "ign", id |-> g.id, len |-> g.len]>>
          ELSE <<[t |-> "ign", id |-> 35, len |-> 4], [t |-> "ign", id |-> g.id, len |-> g.len],
                 [t |-> "ign", id |-> 36, len |-> 0]>>)
  /\ nign' = nign + 1
  /\ UNCHANGED <<wrow, hasrow, wcol, ncell, nrow, pre, done>>

WEnd ==
  /\ ~done /\ AreaWithin(Ideal(toks, SST), MaxArea)
  /\ done' = TRUE
  /\ UNCHANGED <<toks, wrow, hasrow, wcol, ncell, nign, nrow, pre, rd>>

Next == \/ \E r \in RowSet : WRow(r)
        \/ \E c \in ColSet, v \in Vals : WCell(c, v)
        \/ \E g \in IgnSet : WIgn(g)
        \/ WEnd
Spec == Init /\ [][Next]_vars

--------------------------------------------------------------------------
\* the reader's row register is the writer's current row after every record
RowAgrees == hasrow => rd.row = wrow
\* nothing read so far is displaced: the cells read are a prefix-closed part of the ideal cells
\* (after the repair they are exactly the ideal cells written so far)
PrefixOK == FmlaErrorRead => rd.out = IdealCells(toks, SST)
\* the incremental reader and the batch operator used by Trace_XlsbSheet agree
Incremental == rd.out = ReadCells(toks, SST)
\* XlsbCellsReader::new stops right behind BrtBeginSheetData whatever optional parts precede it
PreambleOK == NewPos(PreIds(pre)) = Len(PreIds(pre)) + 1

\* the bounding rectangle only grows: prune tables that can never be completed within MaxArea
AreaConstraint == AreaWithin(Ideal(toks, SST), MaxArea)

Refines == done => AsIs(toks, SST) = Ideal(toks, SST)

Dump == done => PrintT(<<"REPLAY", ToJson([pre |-> pre, tokens |-> toks, sst |-> SST,
                                           ideal |-> Ideal(toks, SST), dev |-> <<>>])>>)
=============================================================================
