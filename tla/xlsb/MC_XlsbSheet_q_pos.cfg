SPECIFICATION Spec
CONSTANTS
  FmlaErrorRead = TRUE
  RowSet = {0, 1, 1048575}
  ColSet = {0, 127, 128, 16383}
  Vals = {1, 23}
  Ign = "none"
  MaxRows = 3
  MaxCells = 2
  MaxIgn = 0
  Pres = "one"
  MaxArea = 2097152
INVARIANTS RowAgrees PrefixOK Incremental PreambleOK Refines Dump
CHECK_DEADLOCK FALSE
