SPECIFICATION Spec
CONSTANTS
  FmlaErrorRead = TRUE
  RowSet = {0, 1, 1048575}
  ColSet = {0, 127, 128, 16383}
  Vals = {1, 23}
  Ign = "none"
  MaxRows = 3
  MaxCells = 2
  MaxIgn = 0
  Pres = "one"
  MaxArea = 1100000
INVARIANTS RowAgrees PrefixOK Incremental PreambleOK Refines Dump
CONSTRAINT AreaConstraint
CHECK_DEADLOCK FALSE
