SPECIFICATION Spec
CONSTANTS
  FmlaErrorRead = TRUE
  RowSet = {0, 7}
  ColSet = {0, 3}
  Vals = {1, 26}
  Ign = "meta"
  MaxRows = 2
  MaxCells = 1
  MaxIgn = 1
  Pres = "all"
  MaxArea = 2097152
INVARIANTS RowAgrees PrefixOK Incremental PreambleOK Refines Dump
CONSTRAINT AreaConstraint
CHECK_DEADLOCK FALSE
