SPECIFICATION Spec
CONSTANTS
  FmlaErrorRead = TRUE
  RowSet = {0, 1, 2, 3, 9, 100, 65535, 65536, 1048574, 1048575}
  ColSet = {0, 1, 2, 25, 26, 127, 128, 255, 256, 16382, 16383}
  Vals = {1,2,3,4,5,6,7,8,9,10,11,12,13,14,15,16,17,18,19,20,21,22,23,24,25,26,27,28,29,30,31,32,33,34,35,36}
  Ign = "lens"
  MaxRows = 6
  MaxCells = 6
  MaxIgn = 6
  Pres = "all"
  MaxArea = 2097152
INVARIANTS RowAgrees PrefixOK Incremental PreambleOK Refines Dump
CONSTRAINT AreaConstraint
CHECK_DEADLOCK FALSE
