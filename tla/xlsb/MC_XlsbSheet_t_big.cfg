SPECIFICATION Spec
CONSTANTS
  FmlaErrorRead = TRUE
  RowSet = {0}
  ColSet = {0, 1}
  Vals = {1}
  Ign = "big"
  MaxRows = 1
  MaxCells = 2
  MaxIgn = 2
  Pres = "one"
  MaxArea = 2097152
INVARIANTS RowAgrees PrefixOK Incremental PreambleOK Refines Dump
CONSTRAINT AreaConstraint
CHECK_DEADLOCK FALSE
