SPECIFICATION Spec
CONSTANTS
  FmlaErrorRead = TRUE
  RowSet = {5}
  ColSet = {0, 1, 2}
  Vals = {1,2,3,4,5,6,7,8,9,10,11,12,13,14,15,16,17,18,19,20,21,22,23,24,25,26,27,28,29,30,31,32,33,34,35,36}
  Ign = "none"
  MaxRows = 1
  MaxCells = 3
  MaxIgn = 0
  Pres = "one"
  MaxArea = 2097152
INVARIANTS RowAgrees PrefixOK Incremental PreambleOK Refines Dump
CONSTRAINT AreaConstraint
CHECK_DEADLOCK FALSE
