SPECIFICATION Spec
CONSTANTS
  FmlaErrorRead = TRUE
  RowSet = {0, 7}
  ColSet = {0, 3}
  Vals = {1, 26, 32}
  Ign = "quick"
  MaxRows = 2
  MaxCells = 2
  MaxIgn = 1
  Pres = "all"
  MaxArea = 2097152
INVARIANTS RowAgrees PrefixOK Incremental PreambleOK Refines Dump
CONSTRAINT AreaConstraint
CHECK_DEADLOCK FALSE
