SPECIFICATION Spec
CONSTANTS
  FmlaErrorRead = TRUE
INVARIANTS Refines
POSTCONDITION Accepted
CHECK_DEADLOCK FALSE
