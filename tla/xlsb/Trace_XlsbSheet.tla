--------------------------- MODULE Trace_XlsbSheet ---------------------------
(* code -> spec: `cvh drive xlsb` writes random big sheets (rows to 1048575,  *)
(* columns to 16383, every record kind, fillers with boundary lengths) into   *)
(* real .xlsb files, reads them with calamine::Xlsb and logs, per sheet, the  *)
(* record tokens and what worksheet_range / worksheet_range_ref returned.     *)
(* The log is accepted iff, for every sheet, XlsbCellsReader::new's preamble  *)
(* skipping and next_cell as modelled in XlsbSheet.tla reproduce the          *)
(* observation; the property (AsIs = Ideal) is an invariant of every state.   *)
EXTENDS XlsbSheet, Json, IOUtils

Rec == ndJsonDeserialize(IOEnv.TRACE)

VARIABLES l, refines
vars == <<l, refines>>
Init == l = 1 /\ refines = TRUE
Ev == Rec[l]

TSheet ==
  /\ l <= Len(Rec) /\ Ev.e = "sheet"
  /\ "error" \notin DOMAIN Ev
  /\ NewPos(PreIds(Ev.pre)) = Len(PreIds(Ev.pre)) + 1
  /\ LET a == AsIs(Ev.tokens, Ev.sst) IN
       /\ Ev.range = a
       /\ Ev.range_ref = a
       /\ refines' = (a = Ideal(Ev.tokens, Ev.sst))
  /\ l' = l + 1

\* fixture-driven events: pre_ids = the record ids of the real part up to and including
\* BrtBeginSheetData, tokens from an independent tokeniser, values compared by coarse kind
TFixture ==
  /\ l <= Len(Rec) /\ Ev.e = "fixture"
  /\ "error" \notin DOMAIN Ev
  /\ NewPos(Ev.pre_ids) = Len(Ev.pre_ids) + 1
  /\ LET a == AsIsK(Ev.tokens) IN
       /\ Ev.start = a.start /\ Ev.end = a.end /\ Ev.cells = a.cells
  /\ UNCHANGED refines
  /\ l' = l + 1

Next == TSheet \/ TFixture
Spec == Init /\ [][Next]_vars
Refines == refines

Accepted ==
  LET d == TLCGet("stats").diameter IN
  IF d - 1 = Len(Rec) THEN PrintT(<<"ACCEPTED", ToString(Len(Rec))>>)
  ELSE PrintT(<<"REJECTED", ToJson([at |-> d, run |-> IF "run" \in DOMAIN Rec[d] THEN Rec[d].run ELSE 0])>>)
=============================================================================
