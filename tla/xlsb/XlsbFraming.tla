---------------------------- MODULE XlsbFraming ----------------------------
(***************************************************************************)
(* C03 -- BIFF12 record framing (MS-XLSB 2.1.4).                           *)
(*                                                                         *)
(* writer: record type in 1 byte (id < 128) or 2 bytes (128..16383), 7     *)
(*   bits per byte, low group first, high bit = "one more byte"; record    *)
(*   size in 1..4 bytes, same scheme.  The writer uses the minimal number  *)
(*   of size bytes plus `slack` padding groups (slack = 0 everywhere in    *)
(*   the checked language: whether padded sizes are legal is not clear     *)
(*   from the format description, so they are not asserted).               *)
(* reader: RecordIter::read_type and ::fill_buffer of src/xlsb/mod.rs,     *)
(*   transcribed byte by byte.                                             *)
(* Payload bytes are symbolic (the reader skips them by length): a stream  *)
(* is a sequence of headers and payload lengths, and the property is that  *)
(* reader and writer agree on id, length and byte offset after every       *)
(* record.                                                                 *)
(***************************************************************************)
EXTENDS Naturals, Sequences, TLC

Pow128(i) == CASE i = 0 -> 1 [] i = 1 -> 128 [] i = 2 -> 16384 [] i = 3 -> 2097152

EncId(id) == IF id < 128 THEN <<id>> ELSE <<(id % 128) + 128, id \div 128>>
MinLenBytes(n) == IF n < 128 THEN 1 ELSE IF n < 16384 THEN 2 ELSE IF n < 2097152 THEN 3 ELSE 4
EncLen(n, nb) == [i \in 1..nb |-> ((n \div Pow128(i - 1)) % 128) + (IF i < nb THEN 128 ELSE 0)]
Header(id, n, nb) == EncId(id) \o EncLen(n, nb)

\* read_type: b = read_u8(); if b & 0x80 { (b & 0x7F) + ((read_u8() & 0x7F) << 7) } else { b }
ReadType(bs) == IF bs[1] >= 128 THEN [typ |-> (bs[1] % 128) + ((bs[2] % 128) * 128), used |-> 2]
                ELSE [typ |-> bs[1], used |-> 1]

\* fill_buffer: b = read_u8(); len = b & 0x7F;
\*   for i in 1..4 { if b & 0x80 == 0 {break}; b = read_u8(); len += (b & 0x7F) << (7*i) }
\* `at` = index of the byte read last, `i` = number of size bytes read so far
RECURSIVE FillLen(_, _, _, _)
FillLen(bs, at, i, len) ==
  IF bs[at] < 128 \/ i = 4 THEN [len |-> len, used |-> i]
  ELSE FillLen(bs, at + 1, i + 1, len + ((bs[at + 1] % 128) * Pow128(i)))

ReadHeader(bs) == LET t == ReadType(bs)
                      l == FillLen(bs, t.used + 1, 1, bs[t.used + 1] % 128)
                  IN [typ |-> t.typ, len |-> l.len, used |-> t.used + l.used]
=============================================================================
