----------------------------- MODULE XlsbSheet -----------------------------
(***************************************************************************)
(* C03 -- XLSB cell records under the current BrtRowHdr.                   *)
(*                                                                         *)
(* A worksheet part is  preamble, BrtBeginSheetData, cell table,           *)
(* BrtEndSheetData.  The cell table is a sequence of record TOKENS         *)
(*   [t |-> "row",  r]            BrtRowHdr                                *)
(*   [t |-> "cell", c, v]         one of the cell records, v = its value   *)
(*   [t |-> "ign",  id, len]      a record the reader does not interpret   *)
(* Values  v = [k, ...]  with k one of                                     *)
(*   rk real bool err st isst   (BrtCellRk/Real/Bool/Error/St/Isst)        *)
(*   fnum fstr fbool ferr        (BrtFmlaNum/String/Bool/Error)            *)
(*   blank                       (BrtCellBlank: a cell without value)      *)
(* `canon` is the logical value (numbers: a decimal numeral; RK: the value *)
(* its bit pattern denotes in BIFF8, i.e. 30-bit signed integer or the     *)
(* high 30 bits of a double, divided by 100 when fX100 is set).            *)
(*                                                                         *)
(*  Ideal : from the statement -- value under the current row at its       *)
(*          column; a formula record counts like the constant record of    *)
(*          the same type; shared strings resolved; blank cells and        *)
(*          ignorable records contribute nothing; range = bounding box.    *)
(*  Reader: XlsbCellsReader::new (next_skip_blocks over the preamble) and  *)
(*          ::next_cell of src/xlsb/cells_reader.rs, one record per step;  *)
(*          worksheet_range(_ref) collects the non-Empty cells into        *)
(*          Range::from_sparse (bounding box; C05 covers that function).   *)
(*                                                                         *)
(* FmlaErrorRead = FALSE is the reader as pinned: BrtFmlaError (0x000B)    *)
(*   falls into `_ => continue`; refuted by TLC (MC_XlsbSheet_asis.cfg).   *)
(*   TRUE is the code after the repair (`0x0003 | 0x000B`).                *)
(*                                                                         *)
(* Not asserted: BrtCellRString (a cell record the statement does not      *)
(* list), inline / shared strings that are empty, date-formatted cells     *)
(* (C10), padded (non-minimal) size encodings, a worksheet part without    *)
(* BrtWsDim.                                                               *)
(***************************************************************************)
EXTENDS Naturals, Sequences, FiniteSets, TLC, SequencesExt

CONSTANT FmlaErrorRead

Def == <<>>

\* MS-XLSB 2.3: record numbers
RecId(k) == CASE k = "blank" -> 1 [] k = "rk" -> 2 [] k = "err" -> 3 [] k = "bool" -> 4
              [] k = "real" -> 5 [] k = "st" -> 6 [] k = "isst" -> 7 [] k = "fstr" -> 8
              [] k = "fnum" -> 9 [] k = "fbool" -> 10 [] k = "ferr" -> 11
BrtRowHdr == 0
BrtEndSheetData == 146
BrtBeginSheetData == 145
BrtWsDim == 148
Interpreted == 0..11 \cup {BrtEndSheetData}     \* ids next_cell looks at (after the repair)

TokId(tk) == CASE tk.t = "row" -> BrtRowHdr [] tk.t = "cell" -> RecId(tk.v.k) [] tk.t = "ign" -> tk.id

--------------------------------------------------------------------------
(* IDEAL *)
IdealTag(k) == CASE k \in {"rk", "real", "fnum"} -> "n"
                 [] k \in {"bool", "fbool"} -> "b"
                 [] k \in {"err", "ferr"} -> "e"
                 [] k \in {"st", "fstr", "isst"} -> "s"
IdealVal(v, sst) ==
  IF v.k = "blank" THEN Def
  ELSE <<IdealTag(v.k), IF v.k = "isst" THEN sst[v.i + 1] ELSE v.canon>>

\* cells <<row, col, x>> in stream order (the writer emits rows and columns ascending)
IdealCells(toks, sst) ==
  FoldLeft(LAMBDA a, tk :
             IF tk.t = "row" THEN [a EXCEPT !.row = tk.r]
             ELSE IF tk.t = "cell" /\ IdealVal(tk.v, sst) # Def
                  THEN [a EXCEPT !.out = Append(@, <<a.row, tk.c, IdealVal(tk.v, sst)>>)]
                  ELSE a,
           [row |-> 0, out |-> <<>>], toks).out

SMin(S) == CHOOSE x \in S : \A y \in S : x <= y
SMax(S) == CHOOSE x \in S : \A y \in S : x >= y
RangeOfCells(cs) ==
  IF cs = <<>> THEN [start |-> <<>>, end |-> <<>>, cells |-> <<>>]
  ELSE LET rs == {cs[i][1] : i \in 1..Len(cs)}
           ks == {cs[i][2] : i \in 1..Len(cs)}
       IN [start |-> <<SMin(rs), SMin(ks)>>, end |-> <<SMax(rs), SMax(ks)>>, cells |-> cs]

Ideal(toks, sst) == RangeOfCells(IdealCells(toks, sst))

\* calamine's Range is dense: sheets whose bounding rectangle has more than `max` cells are not
\* generated (a resource bound of the harness, not part of the property)
AreaWithin(rg, max) ==
  IF rg.cells = <<>> THEN TRUE
  ELSE LET h == rg.end[1] - rg.start[1] + 1
           w == rg.end[2] - rg.start[2] + 1
       IN h <= max \div w

--------------------------------------------------------------------------
(* READER *)

\* value decoded by next_cell for record id `id`; Def = the record is not a cell for the reader
ReadVal(id, v, sst) ==
  CASE id = 2 -> <<"n", v.canon>>                   \* BrtCellRk: fInt / fX100 / 30-bit payload
    [] id = 3 \/ (FmlaErrorRead /\ id = 11) -> <<"e", v.canon>>
    [] id \in {4, 10} -> <<"b", v.canon>>
    [] id \in {5, 9}  -> <<"n", v.canon>>
    [] id \in {6, 8}  -> <<"s", v.canon>>           \* wide_str(&buf[8..])
    [] id = 7 -> <<"s", sst[v.i + 1]>>              \* &self.strings[isst]
    [] OTHER -> Def

\* one iteration of next_cell's loop; st = [row, out, stop]
CellStep(st, tk, sst) ==
  LET id == TokId(tk) IN
  IF st.stop THEN st
  ELSE IF id = BrtRowHdr
       THEN IF tk.r > 1048576 THEN [st EXCEPT !.stop = TRUE]     \* "invalid row": Ok(None)
            ELSE [st EXCEPT !.row = tk.r]
  ELSE IF id = BrtEndSheetData THEN [st EXCEPT !.stop = TRUE]
  ELSE IF tk.t = "cell" /\ ReadVal(id, tk.v, sst) # Def
       THEN [st EXCEPT !.out = Append(@, <<st.row, tk.c, ReadVal(id, tk.v, sst)>>)]
  ELSE st                                                           \* `_ => continue`

ReadInit == [row |-> 0, out |-> <<>>, stop |-> FALSE]
ReadCells(toks, sst) == FoldLeft(LAMBDA a, tk : CellStep(a, tk, sst), ReadInit, toks).out
AsIs(toks, sst) == RangeOfCells(ReadCells(toks, sst))

--------------------------------------------------------------------------
(* preamble: record ids between the start of the part and the cell table, and
   RecordIter::next_skip_blocks as XlsbCellsReader::new uses it *)
PreIds(pre) ==
  <<129>>                                                  \* BrtBeginSheet
  \o (IF pre.ws_prop THEN <<147>> ELSE <<>>)               \* BrtWsProp
  \o <<BrtWsDim>>
  \o (IF pre.views THEN <<133, 137, 152, 138, 134>> ELSE <<>>)   \* BrtBeginWsViews .. BrtEndWsViews
  \o (IF pre.fmt_info THEN <<485>> ELSE <<>>)              \* BrtWsFmtInfo
  \o (IF pre.col_infos > 0 THEN <<390>> \o [i \in 1..pre.col_infos |-> 60] \o <<391>> ELSE <<>>)
  \o <<BrtBeginSheetData>>

\* position (1-based index of the next unread record) after next_skip_blocks(target, bounds),
\* 0 = ran off the end (an io error in the code).  bounds: set of <<start, end>> pairs
RECURSIVE SkipTo(_, _, _, _)
RECURSIVE UntilEnd(_, _, _)
UntilEnd(ids, p, end) == IF p > Len(ids) THEN 0
                         ELSE IF ids[p] = end THEN p + 1 ELSE UntilEnd(ids, p + 1, end)
SkipTo(ids, p, target, bounds) ==
  IF p = 0 \/ p > Len(ids) THEN 0
  ELSE IF ids[p] = target THEN p + 1
  ELSE IF \E b \in bounds : b[1] = ids[p]
       THEN SkipTo(ids, UntilEnd(ids, p + 1, (CHOOSE b \in bounds : b[1] = ids[p])[2]), target, bounds)
       ELSE SkipTo(ids, p + 1, target, bounds)

\* XlsbCellsReader::new: BrtWsDim first, then BrtBeginSheetData skipping the view / AC / column blocks
NewPos(ids) == SkipTo(ids, SkipTo(ids, 1, BrtWsDim, {}), BrtBeginSheetData,
                      {<<133, 134>>, <<37, 38>>, <<390, 391>>})
=============================================================================
