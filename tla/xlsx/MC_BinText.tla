------------------------------- MODULE MC_BinText -------------------------------
(* C19 (binary formats): a cell text as a sequence of character classes stored in   *)
(* xlsb (BrtCellSt, BrtCellIsst + BrtSSTItem, BrtFmlaString: XLWideString, UTF-16)  *)
(* or xls (LABEL, LABELSST + SST, FORMULA + STRING: XLUnicodeString, 8-bit          *)
(* "compressed" storage when every character is below U+0100, else 16-bit; the      *)
(* writer may also use 16-bit storage for compressible text).  Reader = UTF-16 /    *)
(* Latin-1 decoding (wide_str, XlsEncoding::decode_to); ideal = the same text.      *)
EXTENDS Naturals, Sequences, FiniteSets, TLC, Json
CONSTANTS ClassSet, MaxChars
VARIABLES chars, cfg, done
vars == <<chars, cfg, done>>
Compressible(cs) == \A i \in 1..Len(cs) : cs[i] \in {"a", "amp", "lt", "quot", "apos", "sp", "tab", "nl", "latin1"}
Init == /\ chars = <<>> /\ done = FALSE
        /\ cfg \in [fmt : {"xlsb", "xls"}, store : {"cell", "shared", "fstr"}, high : BOOLEAN, pre : 0..2]
Add(c) == ~done /\ Len(chars) < MaxChars /\ chars' = Append(chars, c) /\ UNCHANGED <<cfg, done>>
End == /\ ~done /\ chars # <<>>
       /\ (cfg.fmt = "xlsb" => ~cfg.high)                      \* xlsb has one storage only
       /\ (cfg.fmt = "xls" /\ ~Compressible(chars)) => cfg.high  \* non Latin-1 text needs 16-bit storage
       /\ (cfg.store # "shared" => cfg.pre = 0)                 \* items before it only in a shared table
       /\ done' = TRUE /\ UNCHANGED <<chars, cfg>>
Next == (\E c \in ClassSet : Add(c)) \/ End
Spec == Init /\ [][Next]_vars
Dump == done => PrintT(<<"REPLAY", ToJson([chars |-> chars, cfg |-> cfg, ideal |-> chars])>>)
=============================================================================
