SPECIFICATION Spec
CONSTANTS
  ClassSet = {"a", "amp", "quot", "sp", "tab", "nl", "latin1", "cjk", "astral", "bom"}
  MaxChars = 3
INVARIANT Dump
CHECK_DEADLOCK FALSE
