SPECIFICATION Spec
CONSTANTS
  ClassSet = {"a", "amp", "quot", "sp", "tab", "nl", "latin1", "cjk", "astral"}
  MaxChars = 3
INVARIANT Dump
CHECK_DEADLOCK FALSE
