SPECIFICATION Spec
CONSTANTS
  ClassSet = {"a", "amp", "quot", "sp", "tab", "nl", "cr", "latin1", "cjk", "astral"}
  MaxChars = 4
INVARIANT Dump
CHECK_DEADLOCK FALSE
