SPECIFICATION Spec
CONSTANTS
  ClassSet = {"a", "amp", "quot", "sp", "tab", "nl", "cr", "latin1", "cjk", "astral", "bom"}
  MaxChars = 4
INVARIANT Dump
CHECK_DEADLOCK FALSE
