-------------------------- MODULE MC_XlsxMergeTable --------------------------
EXTENDS XlsxMergeTable, Json
CONSTANTS MaxMerges

VARIABLES cfg, done
RectOf(k) == CASE k = "inside"  -> [a |-> <<1, 1>>, b |-> <<4, 2>>]
               [] k = "partly"  -> [a |-> <<0, 0>>, b |-> <<3, 3>>]
               [] k = "outside" -> [a |-> <<10, 5>>, b |-> <<13, 6>>]
               [] k = "below"   -> [a |-> <<3, 1>>, b |-> <<7, 1>>]
               [] k = "tworows" -> [a |-> <<1, 1>>, b |-> <<2, 2>>]      \* header + exactly one data row
               [] k = "far"     -> [a |-> <<1048570, 16380>>, b |-> <<1048575, 16383>>]
MergeOf(k) == CASE k = "cell" -> [a |-> <<1, 1>>, b |-> <<1, 1>>]
                [] k = "area" -> [a |-> <<0, 0>>, b |-> <<2, 2>>]
                [] k = "row"  -> [a |-> <<5, 0>>, b |-> <<5, 25>>]
                [] k = "col26" -> [a |-> <<0, 26>>, b |-> <<9, 27>>]
                [] k = "max"  -> [a |-> <<1048574, 16382>>, b |-> <<1048575, 16383>>]
MergeKinds == {"cell", "area", "row", "col26", "max"}
MergeSeqs == UNION {{s \in [1..n -> MergeKinds] : \A i, j \in 1..n : i # j => s[i] # s[j]} : n \in 0..MaxMerges}

Init == /\ cfg \in [rect : {"inside", "partly", "outside", "below", "tworows", "far"}, prefix : {"", "x"}, hdr : {"absent", "0", "1"},
                    tot : {"absent", "0", "1"}, target : {"rel", "abs"}, ncols : 1..3, sheet : 1..2,
                    s2empty : BOOLEAN, m1 : MergeSeqs, m2 : MergeSeqs]
        /\ done = FALSE
Next == ~done /\ done' = TRUE /\ UNCHANGED cfg
Spec == Init /\ [][Next]_<<cfg, done>>

T == [a |-> RectOf(cfg.rect).a, b |-> RectOf(cfg.rect).b, hdr |-> cfg.hdr, tot |-> cfg.tot]
TableSheetEmpty == cfg.sheet = 2 /\ cfg.s2empty
Refines == AsIsTable(T, TableSheetEmpty) = IdealTable(T, TableSheetEmpty) /\ PartFound(T)
Dump == done => PrintT(<<"REPLAY", ToJson([cfg |-> cfg, rect |-> RectOf(cfg.rect),
                                           table |-> IdealTable(T, TableSheetEmpty),
                                           merges1 |-> [i \in 1..Len(cfg.m1) |-> MergeOf(cfg.m1[i])],
                                           merges2 |-> [i \in 1..Len(cfg.m2) |-> MergeOf(cfg.m2[i])]])>>)
=============================================================================
