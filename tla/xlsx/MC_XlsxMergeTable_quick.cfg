SPECIFICATION Spec
CONSTANTS
  MaxMerges = 1
INVARIANTS Refines Dump
CHECK_DEADLOCK FALSE
