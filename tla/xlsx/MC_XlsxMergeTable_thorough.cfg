SPECIFICATION Spec
CONSTANTS
  MaxMerges = 2
INVARIANTS Refines Dump
CHECK_DEADLOCK FALSE
