---------------------------- MODULE MC_XlsxSheet ----------------------------
EXTENDS XlsxSheet, Json

CONSTANTS RowSet, ColSet, MaxCells, FormSet, DimKinds, GapToks, Ignorables, MaxGaps, PkgVary

VARIABLES pkg,                       \* physical package configuration (fixed per behaviour)
          doc,                       \* the logical document (fixed per behaviour)
          todo,                      \* writer: positions still to emit, row-major
          wrow, inrow, wcol,         \* writer: ECMA implicit cursor (last row / col written, -1 coded as 0 with flags)
          anyrow, anycol,            \* writer: has a row / a cell in this row been written yet
          rd,                        \* reader: [row_index, col_index, out] (XlsxCellReader fields, cells pushed)
          tok, done
vars == <<pkg, doc, todo, wrow, inrow, wcol, anyrow, anycol, rd, tok, done>>

PosSet == RowSet \X ColSet
\* calamine's Range is dense: a bounding box of billions of cells cannot be materialised (that
\* is a resource question, C06); the checked documents keep the box below ~1.1 M cells
SmallBox(T) == T = {} \/ LET h == Max({p[1] : p \in T}) - Min({p[1] : p \in T}) + 1
                               w == Max({p[2] : p \in T}) - Min({p[2] : p \in T}) + 1
                           IN w <= 1100000 \div h
Docs == UNION {[S -> FormSet] : S \in {T \in SUBSET PosSet : Cardinality(T) <= MaxCells /\ SmallBox(T)}}

\* package-level encoding choices: namespace prefix on every spreadsheetml element, zip
\* compression method, spelling of the relationship target, case of the part name in the zip,
\* presence of the optional styles part (sharedStrings is dropped only when no cell needs it)
DefaultPkg == [prefix |-> "", deflate |-> FALSE, target |-> "rel", case |-> "exact", styles |-> TRUE, sst |-> TRUE]
\* PkgVary: "none" = default package only, "prefix" = default and prefixed (combined with every
\* position encoding), "all" = full product.  Target spellings: relative ("worksheets/.."),
\* absolute ("/xl/worksheets/..") and the tolerated "xl/worksheets/.." some writers emit.
PkgSet == IF PkgVary = "none" THEN {DefaultPkg}
          ELSE IF PkgVary = "prefix" THEN {DefaultPkg, [DefaultPkg EXCEPT !.prefix = "x"]}
          ELSE [prefix : {"", "x"}, deflate : BOOLEAN, target : {"rel", "abs", "xlrel"},
                case : {"exact", "upper", "mixed"}, styles : BOOLEAN, sst : BOOLEAN]
NeedsSst(d) == \E p \in DOMAIN d : FormDef(d[p]).t = "s"
NeedsStyles(d) == \E p \in DOMAIN d : FormDef(d[p]).s # None

\* reader: read_workbook's target normalisation + xml_reader's case-insensitive lookup
Lower(path) == CASE path = "XL/WORKSHEETS/SHEET1.XML" -> "xl/worksheets/sheet1.xml"
                 [] path = "xl/Worksheets/Sheet1.xml" -> "xl/worksheets/sheet1.xml"
                 [] OTHER -> path
ZipName(c) == CASE c = "upper" -> "XL/WORKSHEETS/SHEET1.XML" [] c = "mixed" -> "xl/Worksheets/Sheet1.xml"
                [] OTHER -> "xl/worksheets/sheet1.xml"
TargetText(t) == CASE t = "abs" -> "/xl/worksheets/sheet1.xml" [] t = "xlrel" -> "xl/worksheets/sheet1.xml"
                  [] OTHER -> "worksheets/sheet1.xml"
ResolvedPath(t) == "xl/worksheets/sheet1.xml"     \* "/xl/.." loses its slash, a relative target gains "xl/"
PartFound == Lower(ZipName(pkg.case)) = Lower(ResolvedPath(pkg.target))

Init == /\ doc \in Docs
        /\ pkg \in {k \in PkgSet : (NeedsSst(doc) => k.sst) /\ (NeedsStyles(doc) => k.styles)}
        /\ todo = SortPos(DOMAIN doc)
        /\ wrow = 0 /\ inrow = FALSE /\ wcol = 0 /\ anyrow = FALSE /\ anycol = FALSE
        /\ rd = RInit
        /\ tok = <<>> /\ done = FALSE

Emit(t) == tok' = Append(tok, t)
\* writer emits a token, the reader consumes it at once
EmitRead(t) == Emit(t) /\ rd' = RStep(rd, t)
NextImplicitRow == IF anyrow THEN wrow + 1 ELSE 0
NextImplicitCol == IF anycol THEN wcol + 1 ELSE 0

\* ---- tokens before sheetData (only as the first tokens) ----
WDim(kind) ==
  /\ tok = <<>> /\ ~done /\ kind # "absent"
  /\ LET r == RangeOf(doc)
         a == IF kind = "exact" /\ r.start # <<>> THEN r.start ELSE <<0, 0>>
         b == CASE kind = "exact" -> (IF r.start # <<>> THEN r.end ELSE <<0, 0>>)
                [] kind = "small" -> <<0, 0>>
                [] kind = "large" -> <<1048575, 16383>>
     IN Emit([k |-> "dim", a |-> a, b |-> b])
  /\ UNCHANGED <<pkg, doc, todo, wrow, inrow, wcol, anyrow, anycol, rd, done>>

WIgn(n) ==
  /\ ~done /\ ~anyrow /\ ~inrow /\ Len(tok) <= 1
  /\ \A i \in 1..Len(tok) : tok[i].k = "dim"
  /\ Emit([k |-> "ign", name |-> n])
  /\ UNCHANGED <<pkg, doc, todo, wrow, inrow, wcol, anyrow, anycol, rd, done>>

\* ---- rows ----
\* a data row: the row of the next cell to write; explicit r, or implicit when it is the next one
WRow(explicit) ==
  /\ ~done /\ ~inrow /\ todo # <<>>
  /\ LET r == Head(todo)[1] IN
     /\ explicit \/ r = NextImplicitRow
     /\ EmitRead([k |-> "row", r |-> r, x |-> explicit])
     /\ wrow' = r /\ inrow' = TRUE /\ anyrow' = TRUE /\ anycol' = FALSE /\ wcol' = 0
  /\ UNCHANGED <<pkg, doc, todo, done>>

\* an empty <row/> in a gap before the next data row (or after the last one)
WEmptyRow(r, explicit) ==
  /\ ~done /\ ~inrow /\ "emptyrow" \in GapToks
  /\ r >= NextImplicitRow
  /\ (IF todo = <<>> THEN TRUE ELSE r < Head(todo)[1])
  /\ explicit \/ r = NextImplicitRow
  /\ EmitRead([k |-> "emptyrow", r |-> r, x |-> explicit])
  /\ wrow' = r /\ anyrow' = TRUE
  /\ UNCHANGED <<pkg, doc, todo, inrow, wcol, anycol, done>>

WRowEnd ==
  /\ ~done /\ inrow
  /\ (IF todo = <<>> THEN TRUE ELSE Head(todo)[1] # wrow)
  /\ EmitRead([k |-> "rowend"])
  /\ inrow' = FALSE
  /\ UNCHANGED <<pkg, doc, todo, wrow, wcol, anyrow, anycol, done>>

\* ---- cells ----
WCell(explicit) ==
  /\ ~done /\ inrow /\ todo # <<>>
  /\ Head(todo)[1] = wrow
  /\ LET p == Head(todo)
         fm == FormDef(doc[p])
     IN /\ explicit \/ p[2] = NextImplicitCol
        /\ EmitRead([k |-> "c", p |-> p, x |-> explicit, t |-> fm.t, s |-> fm.s, f |-> fm.f, v |-> fm.v, is |-> fm.is])
        /\ wcol' = p[2] /\ anycol' = TRUE
  /\ todo' = Tail(todo)
  /\ UNCHANGED <<pkg, doc, wrow, inrow, anyrow, done>>

\* a styled empty <c s=".."/> in a gap of the current row
WEmptyCell(c, explicit) ==
  /\ ~done /\ inrow /\ "emptycell" \in GapToks
  /\ c >= NextImplicitCol
  /\ (IF todo = <<>> THEN TRUE ELSE (Head(todo)[1] = wrow => c < Head(todo)[2]))
  /\ explicit \/ c = NextImplicitCol
  /\ EmitRead([k |-> "c", p |-> <<wrow, c>>, x |-> explicit, t |-> None, s |-> "0", f |-> None, v |-> None, is |-> None])
  /\ wcol' = c /\ anycol' = TRUE
  /\ UNCHANGED <<pkg, doc, todo, wrow, inrow, anyrow, done>>

WEnd ==
  /\ ~done /\ ~inrow /\ todo = <<>>
  /\ done' = TRUE
  /\ UNCHANGED <<pkg, doc, todo, wrow, inrow, wcol, anyrow, anycol, rd, tok>>

GapRows == RowSet \cup {NextImplicitRow}
GapCols == ColSet \cup {NextImplicitCol}

Next ==
  \/ \E k \in DimKinds : WDim(k)
  \/ \E n \in Ignorables : WIgn(n)
  \/ \E x \in BOOLEAN : WRow(x) \/ WCell(x)
  \/ \E r \in GapRows, x \in BOOLEAN : WEmptyRow(r, x)
  \/ \E c \in GapCols, x \in BOOLEAN : WEmptyCell(c, x)
  \/ WRowEnd \/ WEnd

Spec == Init /\ [][Next]_vars

--------------------------------------------------------------------------
\* the cells read so far are cells of the document, at their position, with the ideal value
out == rd.out
PrefixOK == \A i \in 1..Len(out) : /\ out[i][1] \in DOMAIN doc
                                   /\ out[i][2] = FormIdeal(doc[out[i][1]])
\* from_sparse precondition: rows never decrease
Sorted == \A i \in 1..(Len(out) - 1) : out[i][1][1] <= out[i + 1][1][1]
Refines == done => PartFound /\ FromSparseOf(out) = RangeOf(doc)
\* bounded number of gap tokens per behaviour keeps the space finite
GapBound == Cardinality({i \in 1..Len(tok) : tok[i].k = "emptyrow"
                           \/ (tok[i].k = "c" /\ tok[i].v = None /\ tok[i].f = None /\ tok[i].is = None /\ tok[i].s = "0" /\ tok[i].t = None)}) <= MaxGaps
            /\ Cardinality({i \in 1..Len(tok) : tok[i].k = "ign"}) <= 1

Dump == done => PrintT(<<"REPLAY", ToJson([pkg |-> pkg, tokens |-> tok, ideal |-> RangeOf(doc)])>>)
=============================================================================
