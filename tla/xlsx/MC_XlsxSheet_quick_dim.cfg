SPECIFICATION Spec
CONSTANTS
  RowSet = {0, 3}
  ColSet = {1, 27}
  MaxCells = 2
  FormSet = {"num1", "styled"}
  DimKinds = {"absent", "exact", "small", "large"}
  GapToks = {}
  Ignorables = {"sheetViews", "sheetPr", "cols"}
  MaxGaps = 0
  PkgVary = "none"
CONSTRAINT GapBound
INVARIANTS PrefixOK Sorted Refines Dump
CHECK_DEADLOCK FALSE
