SPECIFICATION Spec
CONSTANTS
  RowSet = {0, 1}
  ColSet = {0, 1}
  MaxCells = 2
  FormSet = {"num1"}
  DimKinds = {"absent"}
  GapToks = {"emptyrow", "emptycell"}
  Ignorables = {}
  MaxGaps = 1
  PkgVary = "prefix"
CONSTRAINT GapBound
INVARIANTS PrefixOK Sorted Refines Dump
CHECK_DEADLOCK FALSE
