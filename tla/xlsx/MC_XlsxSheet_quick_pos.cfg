SPECIFICATION Spec
CONSTANTS
  RowSet = {0, 1, 1048575}
  ColSet = {0, 1, 16383}
  MaxCells = 2
  FormSet = {"num1"}
  DimKinds = {"absent"}
  GapToks = {"emptyrow", "emptycell"}
  Ignorables = {}
  MaxGaps = 1
  PkgVary = "none"
CONSTRAINT GapBound
INVARIANTS PrefixOK Sorted Refines Dump
CHECK_DEADLOCK FALSE
