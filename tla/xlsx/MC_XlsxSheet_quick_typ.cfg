SPECIFICATION Spec
CONSTANTS
  RowSet = {1, 2}
  ColSet = {1, 26}
  MaxCells = 2
  FormSet = {"num1", "num2", "numn2", "numdec", "numexp", "numbig", "numf", "nempty", "nnov", "styled", "fonly", "ss0", "ss1", "fstr", "fstresc", "istr", "btrue", "bfalse", "ediv", "ena", "ename", "enull", "enum", "eref", "evalue", "egetting", "iso"}
  DimKinds = {"absent"}
  GapToks = {}
  Ignorables = {}
  MaxGaps = 0
  LaxRows = FALSE
  PkgVary = "none"
CONSTRAINT GapBound
INVARIANTS PrefixOK Sorted Refines Dump
CHECK_DEADLOCK FALSE
