SPECIFICATION Spec
CONSTANTS
  RowSet = {0, 3, 9}
  ColSet = {1, 27}
  MaxCells = 2
  FormSet = {"num1", "styled"}
  DimKinds = {"absent", "exact", "small", "large"}
  GapToks = {"emptyrow"}
  Ignorables = {"sheetViews", "sheetPr", "cols"}
  MaxGaps = 1
  PkgVary = "none"
CONSTRAINT GapBound
INVARIANTS PrefixOK Sorted Refines Dump
CHECK_DEADLOCK FALSE
