SPECIFICATION Spec
CONSTANTS
  RowSet = {3, 4}
  ColSet = {1}
  MaxCells = 2
  FormSet = {"num1", "ss1", "istr", "numdec"}
  DimKinds = {"absent", "exact"}
  GapToks = {}
  Ignorables = {}
  MaxGaps = 0
  PkgVary = "all"
CONSTRAINT GapBound
INVARIANTS PrefixOK Sorted Refines Dump
CHECK_DEADLOCK FALSE
