--------------------------- MODULE MC_XlsxStrings ---------------------------
EXTENDS XlsxStrings, Json

CONSTANTS ClassSet, MaxChars, MaxParts, Structures, Storages, AllowCdata, Fillers, MaxPre, NsPrefixes

VARIABLES item,        \* parts of the string item under construction
          cur,         \* chars of the part being written
          stage, store, tok,
          prefix,      \* namespace prefix used for every spreadsheetml element ("" = default namespace)
          pre          \* shared storage: items placed before the string in the table (empty <si/>,
                       \* <si><t/></si>, or a filler string); a filler "zz" always follows it
vars == <<item, cur, stage, store, tok, pre, prefix>>

CharSet == UNION {{[c |-> c, e |-> e] : e \in (IF AllowCdata THEN FormsOf(c) ELSE FormsOf(c) \ {"cdata"})} : c \in ClassSet}
NChars(parts) == Len(Concat([i \in 1..Len(parts) |-> parts[i].chars]))

PreSet == UNION {[1..n -> Fillers] : n \in 0..MaxPre}
FillerParts(f) == CASE f = "empty_si" -> <<>>
                    [] f = "empty_t" -> <<[k |-> "t", chars |-> <<>>]>>
                    [] OTHER -> <<[k |-> "t", chars |-> <<[c |-> "a", e |-> "lit"], [c |-> "a", e |-> "lit"]>>]>>
Table == [i \in 1..Len(pre) |-> FillerParts(pre[i])] \o <<item>> \o <<FillerParts("filler")>>

Init == /\ item = <<>> /\ cur = <<>> /\ stage = "parts" /\ store \in Storages /\ tok = <<>>
        /\ pre \in (IF store = "shared" THEN PreSet ELSE {<<>>})
        /\ prefix \in NsPrefixes

\* add one character to the part being written
AddChar(ch) == /\ stage = "parts" /\ NChars(item) + Len(cur) < MaxChars
               /\ cur' = Append(cur, ch) /\ UNCHANGED <<item, stage, store, tok, pre, prefix>>

TextKinds == IF "rich" \in Structures THEN {"t", "r"} ELSE {"t"}
\* close the current part as a text-bearing element; items are either one plain t or runs only
ClosePart(k) ==
  /\ stage = "parts" /\ Len(item) < MaxParts
  /\ k \in TextKinds
  /\ k = "t" => (item = <<>> /\ cur # <<>>)
  /\ k = "r" => \A i \in 1..Len(item) : item[i].k # "t"
  /\ store = "fstr" => (k = "t" /\ item = <<>>)
  /\ item' = Append(item, [k |-> k, chars |-> cur]) /\ cur' = <<>>
  /\ UNCHANGED <<stage, store, tok, pre, prefix>>

\* phonetic material: after the plain t, or between / after runs
AddPhon(k) ==
  /\ stage = "parts" /\ cur = <<>> /\ Len(item) < MaxParts /\ item # <<>>
  /\ "phon" \in Structures /\ store # "fstr"
  /\ k \in {"rph", "ppr", "rnot"}
  /\ k = "ppr" => \A i \in 1..Len(item) : item[i].k # "ppr"
  /\ k = "rnot" => (\A i \in 1..Len(item) : item[i].k # "t") /\ "rich" \in Structures
  /\ item' = Append(item, [k |-> k, chars |-> IF k = "rph" THEN <<[c |-> "a", e |-> "lit"]>> ELSE <<>>])
  /\ UNCHANGED <<cur, stage, store, tok, pre, prefix>>

Seal == /\ stage = "parts" /\ cur = <<>> /\ item # <<>>
        /\ IdealItem(item) # <<>>                  \* empty strings as values are not asserted
        /\ stage' = "done" /\ UNCHANGED <<item, cur, store, tok, pre, prefix>>

Next == (\E ch \in CharSet : AddChar(ch)) \/ (\E k \in {"t", "r"} : ClosePart(k))
        \/ (\E k \in {"rph", "ppr", "rnot"} : AddPhon(k)) \/ Seal
Spec == Init /\ [][Next]_vars

Refines == stage = "done" =>
             /\ ReadItem(item) = IdealItem(item)
             \* shared-string indices designate the i-th item, including when some are empty
             /\ store = "shared" => /\ Len(ReadSst(Table)) = Len(Table)
                                    /\ ReadSst(Table)[Len(pre) + 1] = IdealItem(item)
                                    /\ ReadSst(Table)[Len(pre) + 2] = <<"a", "a">>
Dump == stage = "done" =>
          PrintT(<<"REPLAY", ToJson([item |-> item, store |-> store, pre |-> pre, prefix |-> prefix, ideal |-> IdealItem(item)])>>)
=============================================================================
