SPECIFICATION Spec
CONSTANTS
  ClassSet = {"a", "amp"}
  MaxChars = 1
  MaxParts = 3
  Structures = {"rich", "phon"}
  Storages = {"shared"}
  AllowCdata = TRUE
  Fillers = {"empty_si", "empty_t", "filler"}
  MaxPre = 3
  NsPrefixes = {"", "x"}
INVARIANTS Refines Dump
CHECK_DEADLOCK FALSE
