SPECIFICATION Spec
CONSTANTS
  ClassSet = {"a", "sp"}
  MaxChars = 2
  MaxParts = 4
  Structures = {"rich", "phon"}
  Storages = {"shared", "inline"}
  AllowCdata = FALSE
  Fillers = {"empty_si", "empty_t", "filler"}
  MaxPre = 0
  NsPrefixes = {"", "x"}
INVARIANTS Refines Dump
CHECK_DEADLOCK FALSE
