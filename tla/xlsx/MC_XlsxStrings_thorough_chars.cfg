SPECIFICATION Spec
CONSTANTS
  ClassSet = {"a", "amp", "lt", "gt", "quot", "apos", "sp", "tab", "nl", "cr", "cjk", "astral", "bom"}
  MaxChars = 3
  MaxParts = 2
  Structures = {"rich"}
  Storages = {"shared", "inline", "fstr"}
  AllowCdata = TRUE
  Fillers = {"empty_si", "empty_t", "filler"}
  MaxPre = 0
  NsPrefixes = {""}
INVARIANTS Refines Dump
CHECK_DEADLOCK FALSE
