SPECIFICATION Spec
CONSTANTS
  ClassSet = {"a", "amp"}
  MaxChars = 2
  MaxParts = 3
  Structures = {"rich", "phon"}
  Storages = {"shared"}
  AllowCdata = TRUE
  Fillers = {"empty_si", "empty_t", "filler"}
  MaxPre = 4
  NsPrefixes = {"", "x"}
INVARIANTS Refines Dump
CHECK_DEADLOCK FALSE
