SPECIFICATION Spec
CONSTANTS
  ClassSet = {"a", "sp", "amp"}
  MaxChars = 3
  MaxParts = 4
  Structures = {"rich", "phon"}
  Storages = {"shared", "inline"}
  AllowCdata = FALSE
  Fillers = {"empty_si", "empty_t", "filler"}
  MaxPre = 1
  NsPrefixes = {"", "x"}
INVARIANTS Refines Dump
CHECK_DEADLOCK FALSE
