---------------------------- MODULE Trace_BigSst ----------------------------
(* code -> spec: a shared-string table of N > 65 536 items "s0", "s1", ... and cells    *)
(* that refer to the boundary indexes (0, 1, 255, 256, 65535, 65536, 65537, N-1), in   *)
(* xlsx, xlsb and xls: the cell with index i reads as the i-th item, whatever i's size. *)
EXTENDS Naturals, Sequences, TLC, Json, IOUtils

Rec == ndJsonDeserialize(IOEnv.TRACE)
VARIABLES l
Ev == Rec[l]
Init == l = 1
TBig == /\ l <= Len(Rec) /\ Ev.e = "bigsst" /\ "error" \notin DOMAIN Ev
        /\ Len(Ev.got) = Len(Ev.idx)
        /\ \A k \in 1..Len(Ev.idx) : Ev.got[k] = "s" \o ToString(Ev.idx[k])
        /\ l' = l + 1
Spec == Init /\ [][TBig]_l
Accepted ==
  LET d == TLCGet("stats").diameter IN
  IF d - 1 = Len(Rec) THEN PrintT(<<"ACCEPTED", ToString(Len(Rec))>>)
  ELSE PrintT(<<"REJECTED", ToJson([at |-> d, event |-> [fmt |-> Rec[d].fmt, got |-> Rec[d].got]])>>)
=============================================================================
