------------------------------ MODULE Trace_BinText ------------------------------
(* code -> spec: long random texts stored in xlsb / xls string records and read by   *)
(* the real readers; the observed character classes must be the written ones.       *)
EXTENDS Naturals, Sequences, TLC, Json, IOUtils
Rec == ndJsonDeserialize(IOEnv.TRACE)
VARIABLES l
Ev == Rec[l]
Init == l = 1
TText == /\ l <= Len(Rec) /\ Ev.e = "text" /\ Ev.observed = Ev.chars
         /\ (Ev.cfg.fmt = "xlsb" => ~Ev.cfg.high) /\ l' = l + 1
Spec == Init /\ [][TText]_l
Accepted ==
  LET d == TLCGet("stats").diameter IN
  IF d - 1 = Len(Rec) THEN PrintT(<<"ACCEPTED", ToString(Len(Rec))>>)
  ELSE PrintT(<<"REJECTED", ToJson([at |-> d, run |-> IF "run" \in DOMAIN Rec[d] THEN Rec[d].run ELSE 0, cfg |-> Rec[d].cfg])>>)
=============================================================================
