------------------------ MODULE Trace_XlsxMergeTable ------------------------
(* code -> spec: tables and merged regions of random workbooks as reported by the *)
(* real reader; table geometry must be what the spec's arithmetic yields from the *)
(* declaration, merged regions must be exactly the declared list.                 *)
EXTENDS XlsxMergeTable, Json, IOUtils
Rec == ndJsonDeserialize(IOEnv.TRACE)
VARIABLES l
Ev == Rec[l]
Init == l = 1
TTable == /\ l <= Len(Rec) /\ Ev.e = "table"
          /\ LET t == [a |-> Ev.decl.a, b |-> Ev.decl.b, hdr |-> Ev.decl.hdr, tot |-> Ev.decl.tot]
                 d == AsIsDims(t)
             IN /\ Ev.obs.start = d.start /\ Ev.obs.end = d.end
                /\ d.start = IdealTable(t, FALSE).start /\ d.end = IdealTable(t, FALSE).end
                /\ Ev.obs.sheet = Ev.decl.sheet /\ Ev.obs.name = Ev.decl.name
          /\ l' = l + 1
TMerges == /\ l <= Len(Rec) /\ Ev.e = "merges" /\ Ev.declared = Ev.reported /\ l' = l + 1
Next == TTable \/ TMerges
Spec == Init /\ [][Next]_l
Accepted ==
  LET d == TLCGet("stats").diameter IN
  IF d - 1 = Len(Rec) THEN PrintT(<<"ACCEPTED", ToString(Len(Rec))>>)
  ELSE PrintT(<<"REJECTED", ToJson([at |-> d, event |-> Rec[d]])>>)
=============================================================================
