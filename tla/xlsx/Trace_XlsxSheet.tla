-------------------------- MODULE Trace_XlsxSheet --------------------------
(* code -> spec: for every sheet the driver generated (token list) and read   *)
(* with the real Xlsx reader (observed range), the reader machine of         *)
(* XlsxSheet.tla run over the same tokens must yield exactly that range.     *)
EXTENDS XlsxSheet, Json, IOUtils

Rec == ndJsonDeserialize(IOEnv.TRACE)
VARIABLES l
Ev == Rec[l]

RECURSIVE Run(_, _, _)
Run(st, toks, i) == IF i > Len(toks) THEN st ELSE Run(RStep(st, toks[i]), toks, i + 1)

Init == l = 1
TSheet == /\ l <= Len(Rec) /\ Ev.e = "sheet"
          /\ "error" \notin DOMAIN Ev /\ "panic" \notin DOMAIN Ev
          /\ LET r == FromSparseOf(Run(RInit, Ev.tokens, 1).out)
             IN /\ r.start = Ev.start /\ r.end = Ev.end
                /\ r.cells = Ev.cells
          /\ l' = l + 1
Next == TSheet
Spec == Init /\ [][Next]_l

Accepted ==
  LET d == TLCGet("stats").diameter IN
  IF d - 1 = Len(Rec) THEN PrintT(<<"ACCEPTED", ToString(Len(Rec))>>)
  ELSE PrintT(<<"REJECTED", ToJson([at |-> d, run |-> Rec[d].run])>>)
=============================================================================
