-------------------------- MODULE Trace_XlsxSheet --------------------------
(* code -> spec: for every sheet the driver generated (token list) and read   *)
(* with the real Xlsx reader (observed range), the reader machine of         *)
(* XlsxSheet.tla run over the same tokens must yield exactly that range, and  *)
(* the observed cells must sit at the positions the writer intended.          *)
EXTENDS XlsxSheet, Json, IOUtils

Rec == ndJsonDeserialize(IOEnv.TRACE)
VARIABLES l
Ev == Rec[l]

RECURSIVE Run(_, _, _)
Run(st, toks, i) == IF i > Len(toks) THEN st ELSE Run(RStep(st, toks[i]), toks, i + 1)

Init == l = 1
TSheet == /\ l <= Len(Rec) /\ Ev.e = "sheet"
          /\ "error" \notin DOMAIN Ev /\ "panic" \notin DOMAIN Ev
          /\ LET r == FromSparseOf(Run(RInit, Ev.tokens, 1).out)
             IN /\ r.start = Ev.start /\ r.end = Ev.end
                /\ r.cells = Ev.cells
          \* and, independently of the transcription: the observed non-empty cells sit exactly at
          \* the positions the writer intended (p of every value-carrying cell token)
          /\ {<<Ev.cells[i][1], Ev.cells[i][2]>> : i \in 1..Len(Ev.cells)}
               = {<<Ev.tokens[i].p[1], Ev.tokens[i].p[2]>> :
                    i \in {j \in 1..Len(Ev.tokens) : Ev.tokens[j].k = "c" /\ Ev.tokens[j].v # "none"}}
          /\ l' = l + 1
\* fixture-driven events (harness/src/fixtures.rs): the tokens come from an independent tokeniser
\* of a real-world worksheet part, values are compared by coarse kind
RunK(toks) == FoldLeft(RStepK, RInit, toks)
\* from_sparse on a cell list whose positions are strictly ascending in row-major order (what
\* real files contain) without the quadratic LastAt search; otherwise the general operator
Ascending(out) == \A i \in 1..(Len(out) - 1) : Less(out[i][1], out[i + 1][1])
SparseOf(out) ==
  IF out = <<>> \/ ~Ascending(out) THEN FromSparseOf(out)
  ELSE LET n == Len(out)  cs == {out[i][1][2] : i \in 1..n}
       IN [start |-> <<out[1][1][1], Min(cs)>>, end |-> <<out[n][1][1], Max(cs)>>,
           cells |-> [i \in 1..n |-> <<out[i][1][1], out[i][1][2], out[i][2]>>]]
TFixture == /\ l <= Len(Rec) /\ Ev.e = "fixture"
            /\ "error" \notin DOMAIN Ev
            /\ LET r == SparseOf(RunK(Ev.tokens).out)
               IN /\ r.start = Ev.start /\ r.end = Ev.end
                  /\ r.cells = Ev.cells
            /\ l' = l + 1
Next == TSheet \/ TFixture
Spec == Init /\ [][Next]_l

Accepted ==
  LET d == TLCGet("stats").diameter IN
  IF d - 1 = Len(Rec) THEN PrintT(<<"ACCEPTED", ToString(Len(Rec))>>)
  ELSE PrintT(<<"REJECTED", ToJson([at |-> d, run |-> IF "run" \in DOMAIN Rec[d] THEN Rec[d].run ELSE 0])>>)
=============================================================================
