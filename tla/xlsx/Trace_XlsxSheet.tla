-------------------------- MODULE Trace_XlsxSheet --------------------------
(* code -> spec: for every sheet the driver generated (token list) and read   *)
(* with the real Xlsx reader (observed range), the reader machine of         *)
(* XlsxSheet.tla run over the same tokens must yield exactly that range, and  *)
(* the observed cells must sit at the positions the writer intended.          *)
EXTENDS XlsxSheet, Json, IOUtils

Rec == ndJsonDeserialize(IOEnv.TRACE)
VARIABLES l
Ev == Rec[l]

RECURSIVE Run(_, _, _)
Run(st, toks, i) == IF i > Len(toks) THEN st ELSE Run(RStep(st, toks[i]), toks, i + 1)

Init == l = 1
TSheet == /\ l <= Len(Rec) /\ Ev.e = "sheet"
          /\ "error" \notin DOMAIN Ev /\ "panic" \notin DOMAIN Ev
          /\ LET r == FromSparseOf(Run(RInit, Ev.tokens, 1).out)
             IN /\ r.start = Ev.start /\ r.end = Ev.end
                /\ r.cells = Ev.cells
          \* and, independently of the transcription: the observed non-empty cells sit exactly at
          \* the positions the writer intended (p of every value-carrying cell token)
          /\ {<<Ev.cells[i][1], Ev.cells[i][2]>> : i \in 1..Len(Ev.cells)}
               = {<<Ev.tokens[i].p[1], Ev.tokens[i].p[2]>> :
                    i \in {j \in 1..Len(Ev.tokens) : Ev.tokens[j].k = "c" /\ Ev.tokens[j].v # "none"}}
          /\ l' = l + 1
Next == TSheet
Spec == Init /\ [][Next]_l

Accepted ==
  LET d == TLCGet("stats").diameter IN
  IF d - 1 = Len(Rec) THEN PrintT(<<"ACCEPTED", ToString(Len(Rec))>>)
  ELSE PrintT(<<"REJECTED", ToJson([at |-> d, run |-> Rec[d].run])>>)
=============================================================================
