--------------------------- MODULE XlsxMergeTable ---------------------------
(***************************************************************************)
(* C17 (xlsx) -- merged regions and tables.                                *)
(*                                                                         *)
(* Workbook: two worksheets with the same fixed grid of values             *)
(* (rows 1..4 x cols 1..2 hold r*10+c, everything else is empty; sheet 2   *)
(* may instead be completely empty), each with a list of merged regions;   *)
(* one table on one of the sheets with: reference rectangle (inside /      *)
(* partly outside / entirely outside the used range), headerRowCount       *)
(* absent|0|1, totalsRowCount absent|0|1, 1..3 columns, relationship       *)
(* target relative (../tables/..) or absolute (/xl/tables/..).             *)
(* Ideal: merged regions = the declared ones, per sheet, in order; table   *)
(* data = sheet values over the reference minus header and totals rows.    *)
(* As-is: read_table_metadata's geometry arithmetic + table part lookup +  *)
(* Range::range window; read_merged_regions / worksheet_merge_cells.       *)
(***************************************************************************)
EXTENDS Naturals, Sequences, FiniteSets, TLC

GridVal(p) == IF p[1] \in 1..4 /\ p[2] \in 1..2 THEN p[1] * 10 + p[2] ELSE 0      \* 0 = Empty
SheetVal(sheetEmpty, p) == IF sheetEmpty THEN 0 ELSE GridVal(p)

HdrRows(h) == IF h = "0" THEN 0 ELSE 1          \* default headerRowCount = 1
TotRows(t) == IF t = "1" THEN 1 ELSE 0          \* default totalsRowCount = 0

\* IDEAL data rectangle and content
EmptyTable == [start |-> <<>>, end |-> <<>>, rows |-> <<>>]
IdealTable(t, sheetEmpty) ==
  LET s == <<t.a[1] + HdrRows(t.hdr), t.a[2]>>
      e == <<t.b[1] - TotRows(t.tot), t.b[2]>>
  IN IF s[1] > e[1] THEN EmptyTable        \* header and totals rows only: no data row, an empty range
     ELSE [start |-> s, end |-> e,
      rows |-> [r \in 1..(e[1] - s[1] + 1) |-> [c \in 1..(e[2] - s[2] + 1) |->
                  SheetVal(sheetEmpty, <<s[1] + r - 1, s[2] + c - 1>>)]]]

\* AS-IS: InnerTableMetadata defaults (header 1, totals 0) and the dims arithmetic
AsIsDims(t) ==
  LET hc == IF t.hdr = "absent" THEN 1 ELSE IF t.hdr = "0" THEN 0 ELSE 1
      tc == IF t.tot = "1" THEN 1 ELSE 0
      s0 == IF hc # 0 THEN t.a[1] + hc ELSE t.a[1]
      e0 == IF tc # 0 THEN t.b[1] - tc ELSE t.b[1]
  IN [start |-> <<s0, t.a[2]>>, end |-> <<e0, t.b[2]>>]
\* table part lookup: "../tables/x" relative to xl/worksheets -> xl/tables/x ; "/xl/tables/x" -> xl/tables/x
PartFound(t) == TRUE
AsIsTable(t, sheetEmpty) ==
  LET d == AsIsDims(t) IN
  IF d.start[1] > d.end[1] THEN EmptyTable      \* the "no data row" guard of table_by_name / table_by_name_ref
  ELSE [start |-> d.start, end |-> d.end,
   rows |-> [r \in 1..(d.end[1] - d.start[1] + 1) |-> [c \in 1..(d.end[2] - d.start[2] + 1) |->
               SheetVal(sheetEmpty, <<d.start[1] + r - 1, d.start[2] + c - 1>>)]]]
=============================================================================
