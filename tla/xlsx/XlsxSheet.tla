----------------------------- MODULE XlsxSheet -----------------------------
(***************************************************************************)
(* C01 -- worksheet part of an xlsx workbook: writer || reader.            *)
(*                                                                         *)
(* Logical document: doc : [positions -> cell form id].  A form fixes the  *)
(* t attribute and the f / v / is children (schema order); FormIdeal gives *)
(* the value the property statement promises for it.                       *)
(* WRITER (nondeterministic, one XML token per action): dimension element  *)
(* (absent / exact / too small / too large), rows and cells with explicit  *)
(* or implicit references -- an implicit reference is enabled only when    *)
(* the ECMA-376 implicit position (previous + 1, first = 0) is the target,  *)
(* that is the legality rule --, empty <row/> and styled empty <c/>         *)
(* elements in the gaps, ignorable elements before sheetData.              *)
(* READER: XlsxCellReader::next_cell transcribed (row_index, col_index) +   *)
(* read_value/read_v typing + Range::from_sparse on the non-empty cells.    *)
(* Not asserted (legality doubtful / statement silent): empty strings as    *)
(* values, children out of schema order, cell children other than f/v/is.   *)
(***************************************************************************)
EXTENDS Naturals, Sequences, FiniteSets, TLC, SequencesExt, FiniteSetsExt

None == "none"
SST == <<"alpha", "beta &<x>">>               \* shared string table of every generated workbook

\* cell forms: [t, s, f, v, is]  (None = attribute / child absent)
FormDef(id) ==
  CASE id = "num1"    -> [t |-> None, s |-> None, f |-> None, v |-> "1", is |-> None]
    [] id = "num2"    -> [t |-> None, s |-> None, f |-> None, v |-> "2", is |-> None]
    [] id = "numn2"   -> [t |-> "n", s |-> None, f |-> None, v |-> "2", is |-> None]
    [] id = "numdec"  -> [t |-> None, s |-> "0", f |-> None, v |-> "1.5", is |-> None]
    [] id = "numexp"  -> [t |-> "n", s |-> None, f |-> None, v |-> "-2.5E-3", is |-> None]
    [] id = "numbig"  -> [t |-> "n", s |-> "0", f |-> None, v |-> "1E+300", is |-> None]
    [] id = "numf"    -> [t |-> None, s |-> None, f |-> "A1+1", v |-> "3", is |-> None]
    [] id = "nempty"  -> [t |-> "n", s |-> None, f |-> None, v |-> "", is |-> None]
    [] id = "nnov"    -> [t |-> "n", s |-> "0", f |-> None, v |-> None, is |-> None]
    [] id = "styled"  -> [t |-> None, s |-> "0", f |-> None, v |-> None, is |-> None]
    [] id = "fonly"   -> [t |-> None, s |-> None, f |-> "A1+1", v |-> None, is |-> None]
    [] id = "ss0"     -> [t |-> "s", s |-> None, f |-> None, v |-> "0", is |-> None]
    [] id = "ss1"     -> [t |-> "s", s |-> "0", f |-> None, v |-> "1", is |-> None]
    [] id = "fstr"    -> [t |-> "str", s |-> None, f |-> "A1&B1", v |-> "a b", is |-> None]
    [] id = "fstresc" -> [t |-> "str", s |-> None, f |-> "A1&B1", v |-> "a&b <c>", is |-> None]   \* written escaped
    [] id = "istr"    -> [t |-> "inlineStr", s |-> None, f |-> None, v |-> None, is |-> "in <l>"]
    [] id = "btrue"   -> [t |-> "b", s |-> None, f |-> None, v |-> "1", is |-> None]
    [] id = "bfalse"  -> [t |-> "b", s |-> None, f |-> "A1>B1", v |-> "0", is |-> None]
    [] id = "ediv"    -> [t |-> "e", s |-> None, f |-> "1/0", v |-> "#DIV/0!", is |-> None]
    [] id = "ena"     -> [t |-> "e", s |-> None, f |-> None, v |-> "#N/A", is |-> None]
    [] id = "ename"   -> [t |-> "e", s |-> None, f |-> None, v |-> "#NAME?", is |-> None]
    [] id = "enull"   -> [t |-> "e", s |-> None, f |-> None, v |-> "#NULL!", is |-> None]
    [] id = "enum"    -> [t |-> "e", s |-> None, f |-> None, v |-> "#NUM!", is |-> None]
    [] id = "eref"    -> [t |-> "e", s |-> None, f |-> None, v |-> "#REF!", is |-> None]
    [] id = "evalue"  -> [t |-> "e", s |-> None, f |-> None, v |-> "#VALUE!", is |-> None]
    [] id = "egetting" -> [t |-> "e", s |-> None, f |-> None, v |-> "#GETTING_DATA", is |-> None]
    [] id = "iso"     -> [t |-> "d", s |-> None, f |-> None, v |-> "2021-03-04T05:06:07Z", is |-> None]

AllForms == {"num1", "num2", "numn2", "numdec", "numexp", "numbig", "numf", "nempty", "nnov", "styled", "fonly",
             "ss0", "ss1", "fstr", "fstresc", "istr", "btrue", "bfalse", "ediv", "ena", "ename", "enull", "enum",
             "eref", "evalue", "egetting", "iso"}

Empty == <<"_">>
\* IDEAL value of a form -- the documented mapping of the property statement
FormIdeal(id) ==
  CASE id \in {"num1", "num2", "numn2", "numdec", "numexp", "numbig", "numf"} -> <<"f", FormDef(id).v>>
    [] id \in {"nempty", "nnov", "styled", "fonly"} -> Empty
    [] id = "ss0" -> <<"s", SST[1]>>  [] id = "ss1" -> <<"s", SST[2]>>
    [] id = "fstr" -> <<"s", "a b">>  [] id = "istr" -> <<"s", "in <l>">>
    [] id = "fstresc" -> <<"s", "a&b <c>">>
    [] id = "btrue" -> <<"b", TRUE>>  [] id = "bfalse" -> <<"b", FALSE>>
    [] id = "ediv" -> <<"e", "Div0">> [] id = "ena" -> <<"e", "NA">> [] id = "ename" -> <<"e", "Name">>
    [] id = "enull" -> <<"e", "Null">> [] id = "enum" -> <<"e", "Num">> [] id = "eref" -> <<"e", "Ref">>
    [] id = "evalue" -> <<"e", "Value">> [] id = "egetting" -> <<"e", "GettingData">>
    [] id = "iso" -> <<"iso", "2021-03-04T05:06:07Z">>

--------------------------------------------------------------------------
(* READER typing: read_value / read_v of src/xlsx/cells_reader.rs *)
IsNumLit(v) == v \in {"1", "2", "3", "0", "1.5", "-2.5E-3", "1E+300"}
SstIdx(v) == IF v = "0" THEN 1 ELSE 2
ErrOf(v) == CASE v = "#DIV/0!" -> "Div0" [] v = "#N/A" -> "NA" [] v = "#NAME?" -> "Name"
              [] v = "#NULL!" -> "Null" [] v = "#NUM!" -> "Num" [] v = "#REF!" -> "Ref"
              [] v = "#VALUE!" -> "Value" [] v = "#GETTING_DATA" -> "GettingData"
ReadV(fm) ==
  CASE fm.t = "s"   -> <<"s", SST[SstIdx(fm.v)]>>
    [] fm.t = "b"   -> <<"b", fm.v # "0">>
    [] fm.t = "e"   -> <<"e", ErrOf(fm.v)>>
    [] fm.t = "d"   -> <<"iso", fm.v>>
    [] fm.t = "str" -> <<"s", fm.v>>
    [] fm.t = "n"   -> IF fm.v = "" THEN Empty ELSE <<"f", fm.v>>
    [] fm.t = None  -> IF IsNumLit(fm.v) THEN <<"f", fm.v>> ELSE <<"s", fm.v>>
    [] OTHER        -> <<"error">>
\* children arrive in schema order f, v, is; each assignment overwrites `value`
ReadVal(fm) ==
  LET a1 == Empty                                            \* initial / after <f>
      a2 == IF fm.v = None THEN a1 ELSE ReadV(fm)
      a3 == IF fm.is = None THEN a2 ELSE <<"s", fm.is>>
  IN a3

\* one step of XlsxCellReader::next_cell per XML token; st = [row_index, col_index, out]
\* (expand_empty_elements: an empty <row/> is Start followed by End)
RInit == [row_index |-> 0, col_index |-> 0, out |-> <<>>]
\* the cursor machine, parameterised by the typing of a cell token
RStepWith(st, t, Val(_)) ==
  CASE t.k = "row"      -> [st EXCEPT !.row_index = IF t.x THEN t.r ELSE @]
    [] t.k = "rowend"   -> [st EXCEPT !.row_index = @ + 1, !.col_index = 0]
    [] t.k = "emptyrow" -> [st EXCEPT !.row_index = (IF t.x THEN t.r ELSE @) + 1, !.col_index = 0]
    [] t.k = "c"        -> LET pos == IF t.x THEN t.p ELSE <<st.row_index, st.col_index>>
                               val == Val(t)
                           IN [st EXCEPT !.col_index = pos[2] + 1,
                                         !.out = IF val = Empty THEN @ ELSE Append(@, <<pos, val>>)]
    [] OTHER            -> st
RStep(st, t) == RStepWith(st, t, ReadVal)

\* COARSE-KIND typing (fixture-driven traces: real-world files tokenised by harness/src/fixtures.rs).
\* A cell token carries t, the children in document order `kids` (a sequence over "f" "v" "is"),
\* vk = lexical class of the <v> text ("none" absent, "empty", "num" a decimal numeral, "text")
\* and isk ("none" | "text").  Every child overwrites `value` (read_value): <f> -> Empty,
\* <is> -> String, <v> -> read_v by the t attribute.  Values are compared by kind only:
\* n (Int / Float / DateTime: the date style is resolved elsewhere, C10), s, b, e, iso.
KindV(t) ==
  CASE t.t = "s" -> <<"s">> [] t.t = "b" -> <<"b">> [] t.t = "e" -> <<"e">> [] t.t = "d" -> <<"iso">>
    [] t.t = "str" -> <<"s">>
    [] t.t = "n" -> IF t.vk = "empty" THEN Empty ELSE <<"n">>
    [] t.t = None -> IF t.vk = "num" THEN <<"n">> ELSE <<"s">>
    [] OTHER -> <<"error">>
RECURSIVE KindFold(_, _, _)
KindFold(t, i, val) ==
  IF i > Len(t.kids) THEN val
  ELSE KindFold(t, i + 1, CASE t.kids[i] = "f" -> Empty
                            [] t.kids[i] = "v" -> KindV(t)
                            [] t.kids[i] = "is" -> IF t.isk = "text" THEN <<"s">> ELSE Empty)
KindVal(t) == KindFold(t, 1, Empty)
RStepK(st, t) == RStepWith(st, t, KindVal)

--------------------------------------------------------------------------
(* geometry *)
Less(a, b) == a[1] < b[1] \/ (a[1] = b[1] /\ a[2] < b[2])
SortPos(S) == SetToSortSeq(S, Less)
NonEmpty(doc) == {p \in DOMAIN doc : FormIdeal(doc[p]) # Empty}
RangeOf(doc) ==
  LET S == NonEmpty(doc) IN
  IF S = {} THEN [start |-> <<>>, end |-> <<>>, cells |-> <<>>]
  ELSE LET rs == {p[1] : p \in S}  cs == {p[2] : p \in S}
           sp == SortPos(S)
       IN [start |-> <<Min(rs), Min(cs)>>, end |-> <<Max(rs), Max(cs)>>,
           cells |-> [i \in 1..Len(sp) |-> <<sp[i][1], sp[i][2], FormIdeal(doc[sp[i]])>>]]

\* Range::from_sparse on the reader's cell list `out` (rows from first / last cell, columns by
\* scan; cells are <<pos, val>>), read back as the same canonical record
FromSparseOf(out) ==
  IF out = <<>> THEN [start |-> <<>>, end |-> <<>>, cells |-> <<>>]
  ELSE LET n  == Len(out)
           rs == out[1][1][1]     re == out[n][1][1]
           cs == {out[i][1][2] : i \in 1..n}
           P  == {out[i][1] : i \in 1..n}
           sp == SortPos(P)
           LastAt(p) == out[Max({i \in 1..n : out[i][1] = p})][2]
       IN [start |-> <<rs, Min(cs)>>, end |-> <<re, Max(cs)>>,
           cells |-> [i \in 1..Len(sp) |-> <<sp[i][1], sp[i][2], LastAt(sp[i])>>]]
=============================================================================
