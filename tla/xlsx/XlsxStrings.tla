---------------------------- MODULE XlsxStrings ----------------------------
(***************************************************************************)
(* C19 (xlsx part) -- cell text through every storage form.                 *)
(*                                                                         *)
(* A character is [c : class, e : escaping form]; classes are the ones the  *)
(* property names (XML-special, blanks, tab, line breaks, BMP non-ASCII,    *)
(* astral) and each class lists the escaping forms XML allows for it        *)
(* (literal, named entity, decimal / hex reference, CDATA section).         *)
(* A string item (<si> or <is>) is a sequence of parts:                     *)
(*   t   plain text element          r    rich-text run (rPr + t)           *)
(*   rph phonetic run (its text must contribute nothing)                    *)
(*   ppr phoneticPr element          rnot run without a t element           *)
(* WRITER: every split of a string into runs, phonetic blocks anywhere      *)
(* after the text / between runs, every escaping of every character,        *)
(* storage as shared string (any index, with empty items around), inline    *)
(* string, or formula string (t="str").                                     *)
(* READER: read_string (rich_buffer, is_phonetic_text, plain short-cut),    *)
(* read_shared_strings' indexing, read_v for t="s"/"str".                   *)
(* Not generated: t and r children in the same item (doubtful legality).    *)
(***************************************************************************)
EXTENDS Naturals, Sequences, FiniteSets, TLC, SequencesExt

Classes == {"a", "amp", "lt", "gt", "quot", "apos", "sp", "tab", "nl", "cr", "cjk", "astral", "bom"}
FormsOf(c) ==
  CASE c = "a"     -> {"lit", "dec", "hex", "cdata"}
    [] c = "amp"   -> {"named", "dec", "hex", "cdata"}
    [] c = "lt"    -> {"named", "dec", "cdata"}
    [] c = "gt"    -> {"lit", "named", "cdata"}
    [] c = "quot"  -> {"lit", "named"}
    [] c = "apos"  -> {"lit", "named"}
    [] c = "sp"    -> {"lit", "dec"}
    [] c = "tab"   -> {"lit", "dec"}
    [] c = "nl"    -> {"lit", "dec"}
    [] c = "cr"    -> {"dec"}                 \* a literal CR is normalised away by XML itself
    [] c = "cjk"   -> {"lit", "hex"}
    [] c = "astral" -> {"lit", "hex", "cdata"}
    [] c = "bom"   -> {"lit", "hex"}            \* U+FEFF inside a text: an ordinary character

\* text of a character sequence as the sequence of its classes (the ideal string)
ClassesOf(chars) == [i \in 1..Len(chars) |-> chars[i].c]

RECURSIVE Concat(_)
Concat(ss) == IF ss = <<>> THEN <<>> ELSE Head(ss) \o Concat(Tail(ss))

\* IDEAL: runs concatenate in order, phonetic annotations contribute nothing
IdealItem(parts) ==
  Concat([i \in 1..Len(parts) |-> IF parts[i].k \in {"t", "r"} THEN ClassesOf(parts[i].chars) ELSE <<>>])

\* READER: read_string over the parts of one item.
\* Text events are unescaped (entities, character references); CDATA events carry their text too.
TextOf(chars) == ClassesOf(chars)
RECURSIVE ReadParts(_, _, _)
\* rich = <<FALSE>> (rich_buffer None) or <<TRUE, text>>
ReadParts(parts, i, rich) ==
  IF i > Len(parts) THEN (IF rich[1] THEN rich[2] ELSE <<>>)          \* End(si): rich_buffer, or "" for none
  ELSE LET p == parts[i] IN
       CASE p.k = "r"    -> ReadParts(parts, i + 1, <<TRUE, (IF rich[1] THEN rich[2] ELSE <<>>) \o TextOf(p.chars)>>)
         [] p.k = "rnot" -> ReadParts(parts, i + 1, <<TRUE, IF rich[1] THEN rich[2] ELSE <<>>>>)
         [] p.k = "t"    -> IF rich[1] THEN ReadParts(parts, i + 1, <<TRUE, rich[2] \o TextOf(p.chars)>>)
                            ELSE TextOf(p.chars)                         \* plain short-cut: return at once
         [] p.k = "rph"  -> ReadParts(parts, i + 1, rich)                \* is_phonetic_text guards its <t>
         [] OTHER        -> ReadParts(parts, i + 1, rich)                \* phoneticPr
ReadItem(parts) == ReadParts(parts, 1, <<FALSE>>)

\* shared strings: the i-th <si> is item i, whatever it contains
ReadSst(items) == [i \in 1..Len(items) |-> ReadItem(items[i])]
=============================================================================
